"""Extra suite X-cachedir (not a listed property): the cache directory under gts cache list / purge / path (spec/CacheDir.tla)."""
from fam_generic import Family, run_family


def D(maxops, stride, nkeys=3):
    return dict(consts=dict(NKeys=nkeys, MaxOps=maxops, Stride=stride, Offset=0), mc=True)


FAM = Family(
    "cachedir", "MC_CacheDir", "Trace_CacheDir", "cli", devs=False, needs_gts=True,
    invariant="TypeOK\nPROPERTIES PurgeEmpties ObserversPure RunStores RunLocal", gen_invariant="EmitCase", dedupe=True, mc_workers=4,
    rounds={"quick": [D(3, 1), D(4, 8)],
            "thorough": [D(4, 1), D(5, 3), D(6, 40, nkeys=4)]},
    rule_text=("every history of MaxOps operations out of {cached run of key k to stdout, cached run of key k with -o FILE, "
               "gts cache list, gts cache purge, gts cache path} over a fresh cache directory; the gts binary built from the "
               "tree is run for every operation; after each the file names on disk must be exactly the names of the model's "
               "entries (names are learned per key and must be stable across purges and directories, injective on keys), "
               "list prints exactly those names with their sizes and the total, purge prints nothing and empties, path "
               "prints the directory, and a key always prints the same output"),
    assumptions=["keys: reverse(part), complement(phix), rotate ^+10 (part), reverse(phix) from the repository corpus"],
)


def run(prop, tier, seed, replay=None):
    return run_family(FAM, prop, tier, seed, replay)
