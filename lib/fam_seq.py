"""Checks decided by the Seq workspace machine (spec/Seq.tla, SeqMachine.tla,
MC_Seq.tla, Trace_Seq.tla): C02 C03 C04 C05 C10 (and the purity runs of C11).
"""
import json
import os
import time

from vcore import (Undecided, Work, build_harness, run_tlc, tlc_stats, tlc_failed, shard_lines,
                   run_harness, parallel, read_ndjson, decode_case_line, validate_trace, load_known,
                   write_evidence, save_replay, NCPU)

DEVS = '{"RgPt", "BwRev", "BwOrigin", "WrapSlice", "RepairCp", "RepairJn"}'

# which programs a property owns, which verdicts of those programs it judges,
# and the rounds per tier: (family, kinds, host lengths, stride, design-checked?)
# stride 1 = the stated finite space is enumerated completely; stride k = a
# seeded 1/k sample of it (offset = VERIF_SEED mod k).
def R(family, kinds, Ls, stride, mc=True, purelen=1):
    return dict(family=family, kinds=kinds, Ls=Ls, stride=stride, mc=mc, purelen=purelen)


PROPS = {
    "C02": dict(
        owns=lambda kind, op, rule: op in ("insert", "embed") and rule not in ("order", "extract"),
        tiers={"quick": [R("edit", ["insert", "embed"], [4], 1), R("edit", ["insert", "embed"], [5], 9, False)],
               "thorough": [R("edit", ["insert", "embed"], [3, 4], 1), R("edit", ["insert", "embed"], [5], 1),
                            R("edit", ["insert", "embed"], [6], 4, False)]}),
    "C03": dict(
        owns=lambda kind, op, rule: op in ("delete", "erase", "slice") and rule not in ("order", "extract"),
        # "cutsshared" programs cut all pieces from ONE value without defensive copies (every slice must
        # see the original features and metadata)
        tiers={"quick": [R("edit", ["delete", "erase", "slice"], [4], 1), R("cutsshared", [], [4], 3),
                         R("edit", ["delete", "erase", "slice"], [5], 15, False)],
               "thorough": [R("edit", ["delete", "erase", "slice"], [3, 4], 1),
                            R("edit", ["delete", "erase", "slice"], [5], 1), R("cutsshared", [], [4, 5], 1),
                            R("edit", ["delete", "erase", "slice"], [6], 6, False)]}),
    "C04": dict(
        owns=lambda kind, op, rule: rule not in ("order", "extract"),
        tiers={"quick": [R("edit", ["rotate"], [4], 1), R("rot2", [], [4], 7), R("edit", ["rotate"], [5], 9, False)],
               "thorough": [R("edit", ["rotate"], [3, 4, 5], 1), R("rot2", [], [3, 4], 1), R("rot2", [], [5], 6, False),
                            R("edit", ["rotate"], [6], 4, False)]}),
    "C05": dict(
        owns=lambda kind, op, rule: rule != "order",
        tiers={"quick": [R("edit", ["reverse", "complement", "revcomp"], [4, 5], 1),
                         R("edit", ["reverse", "complement", "revcomp"], [6], 3, False)],
               "thorough": [R("edit", ["reverse", "complement", "revcomp"], [3, 4, 5], 1),
                            R("edit", ["reverse", "complement", "revcomp"], [6], 1),
                            R("edit", ["reverse", "complement", "revcomp"], [7], 1, False)]}),
    "C11": dict(
        owns=lambda kind, op, rule: rule in ("mutated", "probe-panic", "law-raw", "identity"),
        tiers={"quick": [R("pure", [], [6], 1, purelen=1), R("pure", [], [6], 3, purelen=2), R("puremerge", [], [6], 1, mc=False, purelen=1)],
               "thorough": [R("pure", [], [6], 1, purelen=2), R("puremerge", [], [6], 1, mc=False, purelen=2), R("pure", [], [6], 8, mc=False, purelen=3),
                            R("pure", [], [6], 160, mc=False, purelen=4)]}),
    "C12": dict(
        owns=lambda kind, op, rule: (op == "repair" or (op == "law" and kind in ("cutsrepair", "reptab")))
        and rule not in ("order", "extract"),
        tiers={"quick": [R("cutsrepair", [], [4], 1), R("reptab", [], [4, 5], 1), R("cutsrepair", [], [5], 12, False)],
               "thorough": [R("cutsrepair", [], [3, 4], 1), R("reptab", [], [3, 4, 5, 6], 1),
                            R("cutsrepair", [], [5], 1, False), R("cutsrepair", [], [6], 12, False)]}),
    "C10": dict(
        owns=lambda kind, op, rule: rule not in ("order", "extract") and (kind == "cuts" or op in ("delete", "law")),
        tiers={"quick": [R("edit", ["insert", "embed"], [4], 1), R("cuts", [], [4], 1), R("cuts", [], [5], 2, False),
                         R("edit", ["insert", "embed"], [5], 9, False)],
               "thorough": [R("edit", ["insert", "embed"], [3, 4], 1), R("edit", ["insert", "embed"], [5], 1),
                            R("cuts", [], [3, 4, 5], 1), R("cuts", [], [6], 2, False),
                            R("edit", ["insert", "embed"], [6], 4, False)]}),
}


def cfg_text(Ls, family, kinds, stride, offset, invariant, chunk=40, maxguest=2, purelen=1):
    return """SPECIFICATION Spec
CONSTANTS
  Ls = {%s}
  Family = "%s"
  OpKinds = {%s}
  Chunk = %d
  Stride = %d
  Offset = %d
  MaxGuest = %d
  PureLen = %d
  Devs = %s
%s
CHECK_DEADLOCK FALSE
""" % (", ".join(str(x) for x in Ls), family, ", ".join('"%s"' % k for k in kinds), chunk, stride,
       offset, maxguest, purelen, DEVS, "INVARIANT DesignOK" if invariant else "")


TRACE_CFG = """SPECIFICATION TSpec
CONSTANT Devs = %s
POSTCONDITION TraceAccepted
CHECK_DEADLOCK FALSE
""" % DEVS


def case_kind(case_id):
    parts = case_id.split("#")[0].split(".")
    return parts[2] if len(parts) > 2 else "?"


def replay_cases(work, harness, cases_file, tag, shards=NCPU):
    """harness + trace validation over a case file; returns (summaries, verdicts, stats)."""
    files, n = shard_lines(cases_file, shards, work, "cases-" + tag)
    if n == 0:
        raise Undecided("generator produced no cases (%s)" % tag)

    def one(f):
        tr = f + ".trace"
        run_harness(harness, "seq", f, tr)
        summ, vs, st = validate_trace(work, "Trace_Seq", TRACE_CFG, tr, f + ".verdicts")
        nlines = sum(1 for _ in open(tr))
        if summ["consumed"] != nlines:
            raise Undecided("trace spec consumed %d of %d lines" % (summ["consumed"], nlines))
        os.remove(tr)
        return summ, vs, st

    res = parallel(one, files)
    verdicts = [v for r in res for v in r[1]]
    events = sum(r[0]["consumed"] for r in res)
    ops = sum(r[0]["ops"] for r in res)
    states = sum(r[2][0] for r in res)
    return n, events, ops, verdicts, states


def cli_clause(prop):
    """The command-line clause of a property (its statement / observe_at list names command output)."""
    from fam_cli import cli_family
    from fam_stream import stream_family
    return {"C02": lambda: cli_family("cli-insert", ["insert", "infix"], quick_stride=2),
            "C03": lambda: cli_family("cli-delete", ["delete", "extract", "split"], quick_stride=4),
            "C04": lambda: cli_family("cli-rotate", ["rotate", "split"], quick_stride=2),
            "C05": lambda: stream_family("cli-reverse", ["reverse", "complement"]),
            "C12": lambda: stream_family("cli-repair", ["repair"])}.get(prop, lambda: None)()


def run(prop, tier, seed, replay=None):
    extra = cli_clause(prop)
    if replay and extra is not None:
        with open(replay) as fh:
            first = decode_case_line(fh.readline())
        if "multisite" in first or first.get("fam") == "stream":
            import fam_generic
            return fam_generic.run_family(extra, prop, tier, seed, replay)
    rc = run_library(prop, tier, seed, replay)
    if replay or extra is None:
        return rc
    # the command-line clause: same loop on the gts binary; its coverage is merged into the evidence file
    import fam_generic
    import vcore
    t1 = time.time()
    fam_generic._SINK = []
    try:
        rc2 = fam_generic.run_family(extra, prop, tier, seed)
        parts = fam_generic._SINK
    finally:
        fam_generic._SINK = None
    path = os.path.join(vcore.VERIF, vcore.EVIDENCE_DIR, prop + ".json")
    with open(path) as fh:
        ev = json.load(fh)
    cov, nviol, assumptions = parts[0]
    cli = dict(cov)
    cli.pop("samples", None)
    ev["coverage"]["cli_clause"] = cli
    for k in ("states", "transitions", "cases", "events", "traces_validated_against_impl", "verdicts_total", "verdicts_owned"):
        ev["coverage"][k] = ev["coverage"].get(k, 0) + cov.get(k, 0)
    ev["coverage"]["known_findings_met"] = sorted(set(ev["coverage"].get("known_findings_met", [])) | set(cov.get("known_findings_met", [])))
    ev["coverage"]["rule"] = ev["coverage"].get("rule", "") + " || " + cov.get("rule", "")
    ev["violations"] = ev.get("violations", 0) + nviol
    ev["wall_s"] = round(ev.get("wall_s", 0) + time.time() - t1, 2)
    ev["assumptions"] = sorted(set(ev.get("assumptions", [])) | set(assumptions))
    tmp = path + ".tmp"
    with open(tmp, "w") as fh:
        json.dump(ev, fh, indent=1, sort_keys=True)
        fh.write("\n")
    os.replace(tmp, path)
    return max(rc, rc2)


def run_library(prop, tier, seed, replay=None):
    t0 = time.time()
    conf = PROPS[prop]
    work = Work(prop)
    try:
        harness = build_harness(work)
        known = load_known()
        listed = {(k["property"], k["dev"]) for k in known.get("findings", []) if "dev" in k}

        if replay:
            n, events, ops, verdicts, _ = replay_cases(work, harness, replay, "replay", shards=1)
            return finish(prop, tier, seed, conf, listed, known, work, harness, verdicts,
                          dict(states=1, transitions=1, cases=n, events=events, ops=ops, samples=[]),
                          t0, [replay], evidence=False)

        mc_states = mc_trans = 0
        total_cases = total_events = total_ops = 0
        all_verdicts = []
        samples = []
        case_files = []
        bounds = []
        for rnd in conf["tiers"][tier]:
            for family, kinds in [(rnd["family"], rnd["kinds"])]:
                stride = rnd["stride"]
                offset = seed % stride if stride > 1 else 0
                if rnd["mc"]:
                    rc, out, dt = run_tlc(work, "MC_Seq", cfg_text(rnd["Ls"], family, kinds, stride, offset, True, purelen=rnd["purelen"]),
                                          workers=NCPU, timeout=3000, extra=["-continue"], heap="12g")
                    bad = tlc_failed(out)
                    if "UNEXPLAINED" in out or bad or rc not in (0,):
                        raise Undecided("design check MC_Seq %s/%s failed: the calculus layer no longer refines "
                                        "the abstract layer (spec inconsistency, not a code verdict)\n%s"
                                        % (family, kinds, out[-3000:]))
                    s, t = tlc_stats(out)
                    mc_states += s
                    mc_trans += t
                cases = work.path("cases-%s-%s-%s.ndjson" % (family, "_".join(map(str, rnd["Ls"])), stride))
                rc, out, dt = run_tlc(work, "MC_Seq", cfg_text(rnd["Ls"], family, kinds, stride, offset, False, purelen=rnd["purelen"]),
                                      env={"CASES": cases}, workers=1, timeout=3000, heap="8g")
                if rc != 0 or tlc_failed(out) or not os.path.exists(cases):
                    raise Undecided("case generation failed:\n" + out[-3000:])
                if not rnd["mc"]:
                    s, t = tlc_stats(out)
                    mc_states += s
                    mc_trans += t
                n, events, ops, verdicts, _ = replay_cases(work, harness, cases, family + str(stride))
                for v in verdicts:
                    v["_file"] = cases   # case ids need only be unique within a round
                total_cases += n
                total_events += events
                total_ops += ops
                all_verdicts += verdicts
                case_files.append(cases)
                bounds.append(dict(L=rnd["Ls"], family=family, kinds=kinds, stride=stride, offset=offset,
                                   cases=n, design_checked=rnd["mc"]))
                if len(samples) < 3:
                    with open(cases) as fh:
                        c = decode_case_line(fh.readline())
                    c["recs"][0]["feats"] = c["recs"][0]["feats"][:3] + ["..."]
                    samples.append(c)
        cov = dict(states=mc_states, transitions=mc_trans, cases=total_cases, events=total_events,
                   ops=total_ops, samples=samples, bounds=bounds)
        return finish(prop, tier, seed, conf, listed, known, work, harness, all_verdicts, cov, t0, case_files)
    finally:
        work.cleanup()


def find_case(case_files, cid):
    for f in case_files:
        with open(f) as fh:
            for line in fh:
                if cid in line:
                    c = decode_case_line(line)
                    if c.get("id") == cid:
                        return c
    return None


def finish(prop, tier, seed, conf, listed, known, work, harness, verdicts, cov, t0, case_files, evidence=True):
    owns = conf["owns"]
    mine = [v for v in verdicts if owns(case_kind(v["case"]), v["op"], v["rule"])]
    devs_met = {}
    viol = {}
    for v in mine:
        if v["calc"].startswith("dev:"):
            d = v["calc"][4:]
            if (prop, d) in listed:
                devs_met.setdefault(d, v)
                continue
        if v["calc"] == "tainted":
            continue
        viol.setdefault(v["case"], []).append(v)

    confirmed = []
    # reproduce each violating case alone before reporting it (at most 5)
    for cid in sorted(viol)[:5]:
        own = [v["_file"] for v in viol[cid] if "_file" in v][:1]
        # "<id>#s" is the shared-values run of case <id>
        c = find_case(own + [f for f in case_files if f not in own], cid.split("#")[0])
        if c is None:
            continue
        one = work.path("repro.ndjson")
        with open(one, "w") as fh:
            fh.write(json.dumps(c) + "\n")
        n, events, ops, vs, _ = replay_cases(work, harness, one, "repro", shards=1)
        again = [v for v in vs if owns(case_kind(v["case"]), v["op"], v["rule"])
                 and not (v["calc"].startswith("dev:") and (prop, v["calc"][4:]) in listed)]
        if again:
            path = save_replay(prop, cid, [c])
            confirmed.append((cid, path, again))
    if viol and not confirmed:
        raise Undecided("violations were not reproducible in isolation: %s" % sorted(viol)[:3])

    for d, v in sorted(devs_met.items()):
        what = next((k["what"] for k in known["findings"] if k.get("dev") == d and k["property"] == prop), d)
        print("KNOWN-FINDING: property=%s %s: %s (e.g. case %s, feature %s)" % (prop, d, what, v["case"], v["label"]))
    for cid, path, again in confirmed:
        rules = sorted({"%s/%s/%s" % (v["op"], v["rule"], v["label"]) for v in again})[:6]
        print("VIOLATION property=%s replay=%s" % (prop, path))
        print("  case %s: %s" % (cid, ", ".join(rules)))
    if len(viol) > len(confirmed):
        print("  (%d violating cases in total)" % len(viol))

    if evidence:
        coverage = dict(cov)
        coverage["traces_validated_against_impl"] = cov["cases"]
        coverage["exhaustive"] = all(b["stride"] == 1 for b in cov["bounds"])
        coverage["known_findings_met"] = sorted(devs_met)
        coverage["verdicts_total"] = len(verdicts)
        coverage["verdicts_owned"] = len(mine)
        coverage["rule"] = ("cases = TLC-enumerated workspace programs (host table = chunk of the bounded term universe "
                            "x every argument of the operation); each replayed on the real library and every logged "
                            "step judged by Trace_Seq")
        write_evidence(prop, tier, seed, coverage, time.time() - t0, len(confirmed),
                       assumptions=["small-scope: host lengths and term universe as listed in bounds",
                                    "weakest readings of DESIGN.md section 3"])
    return 1 if confirmed else 0
