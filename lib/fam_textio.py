"""C16 (ORIGIN layout) and C17 (FASTA): spec/TextIO.tla (+ OriginAp.tla, Apalache)."""
import os
import shutil
import subprocess
import tempfile

from fam_generic import Family, run_family, run_families
from fam_cli import cli_family, ALL_CMDS
from vcore import SPEC, Undecided


def M(mode, maxn, fullto, batch, stride, mc=True, minn=0):
    return dict(consts=dict(Mode=mode, MinN=minn, MaxN=maxn, FullTo=fullto, Batch=batch, Stride=stride, Offset=0), mc=mc)


def W(centre, half=70, batch=10):
    """A window of lengths around an index-width change (summary + probe logging)."""
    return M("origin", centre + half, 0, batch, 1, minn=centre - half)


ORIGIN = Family(
    "origin", "MC_TextIO", "Trace_TextIO", "textio", devs=False,
    rounds={"quick": [M("origin", 2000, 600, 100, 1), W(10020), W(100020)],
            "thorough": [M("origin", 50000, 5000, 250, 1), W(100020, 200), W(1000020, 130), W(10000020, 65, 5)]},
    owns=lambda v: v["rule"].startswith("origin"),
    rule_text=("every length 0..MaxN, and windows of lengths around the changes of the index width (10^4, 10^5; thorough "
               "also 10^6, 10^7), x {acgt, full printable alphabet}: NewOrigin(p).String parsed into index / group "
               "lengths, Len before decoding, Bytes, Len after; the record written as GenBank and scanned with LF (fast "
               "validation path) and CRLF (slow line-by-line path)"),
    assumptions=["layout logged in full for n <= FullTo; above: line count, last line and the lines on both sides of "
                 "every index-width change (content, Len and Bytes are still compared in full)"],
)

FASTA = Family(
    "fasta", "MC_TextIO", "Trace_TextIO", "textio", devs=False, case_fam="fasta",
    # the second round moves record and line ends over the reader's 4096-byte buffer boundary
    rounds={"quick": [M("fasta", 300, 0, 75, 1, mc=False), M("fasta", 4130, 0, 45, 1, mc=False, minn=3950)],
            "thorough": [M("fasta", 4500, 0, 100, 1, mc=False), M("fasta", 8300, 0, 50, 1, mc=False, minn=8000)]},
    owns=lambda v: v["rule"].startswith("fasta") or v["rule"].startswith("gbfasta"),
    rule_text=("streams of 1..5 records with residue counts sweeping 0..MaxN (every remainder mod 70), six description "
               "classes, LF and CRLF input, written with NewWriter(FastaFile) and read back with NewAutoScanner; every "
               "GenBank record (whole and sliced) written as FASTA"),
)


def apalache_origin():
    """Unbounded supplement: the two arithmetic identities for all n in Nat."""
    d = tempfile.mkdtemp(prefix="verif-apalache-")
    try:
        shutil.copy(os.path.join(SPEC, "OriginAp.tla"), d)
        p = subprocess.run(["apalache-mc", "check", "--length=0", "--inv=Inv", "OriginAp.tla"], cwd=d,
                           capture_output=True, text=True, timeout=600)
        out = p.stdout + p.stderr
        if "The outcome is: NoError" not in out:
            raise Undecided("Apalache did not discharge the ORIGIN arithmetic identities:\n" + out[-2000:])
    except subprocess.TimeoutExpired:
        raise Undecided("Apalache timed out")
    finally:
        shutil.rmtree(d, ignore_errors=True)


def run(prop, tier, seed, replay=None):
    if prop == "C16":
        if not replay:
            apalache_origin()
        return run_family(ORIGIN, prop, tier, seed, replay)
    # "gts <cmd> -F fasta": the multi-site commands with FASTA output (residues of every output record)
    return run_families([FASTA, cli_family("cli-fasta", ALL_CMDS, quick_stride=2, fasta_only=True)], prop, tier, seed, replay)
