"""C07: parser totality (spec/Parse.tla)."""
from fam_generic import Family, run_family

DEVS = '{"LenientLines"}'


def G(mutlen, stride):
    return dict(consts=dict(Mode="genbank", MutLen=mutlen, MaxTok=1, Batch=500, Stride=stride, Offset=0), mc=False)


def S(maxtok, stride=1):
    return dict(consts=dict(Mode="grammar", MutLen=0, MaxTok=maxtok, Batch=500, Stride=stride, Offset=0), mc=False)


FAM = Family(
    "parse", "MC_Parse", "Trace_Parse", "parse", devs=False, invariant=None,
    rounds={"quick": [G(1, 1), G(2, 23), S(3)],
            "thorough": [G(2, 1), S(4)]},
    trace_consts=dict(Devs=DEVS),
    rule_text=("genbank: every sequence of <= MutLen line mutations (delete / duplicate / swap lines, replace a line by one of "
               "its malformed variants: wrong declared length, empty DBLINK value, shrunk / grown indent, widened field name, "
               "dropped value, broken location, unterminated quote, short / long / mis-indexed sequence line, append a "
               "record) of three seed files (a full GenBank record, a CONTIG-only record, a two-record FASTA file), scanned "
               "with LF and CRLF; truncation at EVERY byte offset and three bit flips at EVERY byte of every line; grammar: "
               "every token string of length <= MaxTok over the alphabets of locator, modifier, selector, date, molecule "
               "and topology.  Each scan / call runs under recover and a 10 s watchdog and only its outcome is logged."),
    assumptions=["running time is not modelled: non-termination is detected by the watchdog only",
                 "location strings are covered by the C06 check (all token strings up to the bound)"],
)


def run(prop, tier, seed, replay=None):
    return run_family(FAM, prop, tier, seed, replay)
