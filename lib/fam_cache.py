"""C13: cache entry integrity (spec/Cache.tla, MC_Cache.tla, Trace_Cache.tla)."""
from fam_generic import Family, run_family

FAM = Family(
    "cache", "MC_Cache", "Trace_Cache", "cache", devs=False, tags="verif",
    invariant="OpenSafe OpenComplete Unfinished", gen_invariant="EmitCase", dedupe=True,
    rounds={"quick": [dict(consts=dict(MaxBlocks=3), mc=True)],
            "thorough": [dict(consts=dict(MaxBlocks=3), mc=True)]},
    trace_consts=dict(MaxBlocks=3), thorough_args=["-full"], mc_workers=4,
    case_key=lambda v: v["case"],
    rule_text=("one case = one fault history reachable in Cache.tla (writer steps of a 0..3-block body, then at most one of "
               "crash at any step, torn header write, byte corruption of a header slot or body block, truncation, "
               "extension, other key); the harness runs the real cache.Create/Write/Close with hooks that copy the on-disk "
               "file at every protocol step, builds every concrete image of the history's fault class (every byte offset "
               "x every single-bit mask and FF of the header, masks 01/20/80/FF, every offset (quick: ~300 sampled per region) of the body, every "
               "truncation length, every torn-header prefix) and calls the real cache.Open on each"),
    assumptions=["SHA-1 is collision resistant and never yields the all-zero digest (abstract injective digest in the spec)",
                 "bodies: empty, 1 B, 101 B, 70 kB incompressible (several deflate blocks); every other 3-block body is trimmed so "
                 "that the stored stream is an exact multiple of 4096 bytes"],
)


def run(prop, tier, seed, replay=None):
    return run_family(FAM, prop, tier, seed, replay)
