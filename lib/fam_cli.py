"""C15: multi-site edit commands of the gts CLI (spec/Cli.tla)."""
from fam_generic import Family, run_family

ALL_CMDS = ["delete", "insert", "infix", "split", "rotate", "extract"]


def cli_family(name, cmds, quick_stride=3, thorough_stride=1, fasta_only=False, owns=None):
    """The multi-site command family restricted to some commands (the property checks whose statements name
    command-line output drive 'their' commands through this family)."""
    def C(stride):
        return dict(consts=dict(Stride=stride, Offset=0, CmdSet=list(cmds), FastaOnly=fasta_only), mc=False)
    return Family(
        name, "MC_Cli", "Trace_Cli", "cli", needs_gts=True, invariant=None, case_fam=None, owns=owns,
        rounds={"quick": [C(quick_stride)], "thorough": [C(thorough_stride)]},
        rule_text=("command-line clause (%s%s): generated 10-bp records x locators x options; the gts binary built from the "
                   "tree is run, input and output parsed with seqio and judged by Cli.tla in input coordinates; every case also "
                   "on the record given twice" % (", ".join(cmds), ", -F fasta only" if fasta_only else "")),
        assumptions=["locators whose regions leave [0,L] are outside the quantifier and not judged"])


FAM = Family(
    "cli", "MC_Cli", "Trace_Cli", "cli", needs_gts=True, invariant=None,
    rounds={"quick": [dict(consts=dict(Stride=3, Offset=0, CmdSet=ALL_CMDS, FastaOnly=False), mc=False)],
            "thorough": [dict(consts=dict(Stride=1, Offset=0, CmdSet=ALL_CMDS, FastaOnly=False), mc=False)]},
    rule_text=("one case = one run of the gts binary: a generated 10-bp record (three tables with overlapping, nested, "
               "unsorted, duplicated and end-touching features on both strands; linear and circular) x a locator (selector "
               "matching 0..k features, point, range, complement range, all features; optionally one of six modifiers; bare "
               "modifiers) x delete[-e] / insert[-e] / infix[-e] / split / rotate / extract[-v] (GenBank and FASTA output); input and "
               "output are parsed with seqio, projected to residue identities and judged by Cli.tla in input coordinates"),
    assumptions=["the located regions are computed by the specification with the Resize transcription validated by C08",
                 "locators whose regions leave [0,L] are outside the quantifier and not judged"],
)


def run(prop, tier, seed, replay=None):
    return run_family(FAM, prop, tier, seed, replay)
