"""C15: multi-site edit commands of the gts CLI (spec/Cli.tla)."""
from fam_generic import Family, run_family

FAM = Family(
    "cli", "MC_Cli", "Trace_Cli", "cli", needs_gts=True, invariant=None,
    rounds={"quick": [dict(consts=dict(Stride=3, Offset=0), mc=False)],
            "thorough": [dict(consts=dict(Stride=1, Offset=0), mc=False)]},
    rule_text=("one case = one run of the gts binary: a generated 10-bp record (three tables with overlapping, nested, "
               "unsorted, duplicated and end-touching features on both strands; linear and circular) x a locator (selector "
               "matching 0..k features, point, range, complement range, all features; optionally one of six modifiers; bare "
               "modifiers) x delete[-e] / insert[-e] / infix[-e] / split / rotate / extract[-v] (GenBank and FASTA output); input and "
               "output are parsed with seqio, projected to residue identities and judged by Cli.tla in input coordinates"),
    assumptions=["the located regions are computed by the specification with the Resize transcription validated by C08",
                 "locators whose regions leave [0,L] are outside the quantifier and not judged"],
)


def run(prop, tier, seed, replay=None):
    return run_family(FAM, prop, tier, seed, replay)
