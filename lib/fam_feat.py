"""C19: selectors, filter combinators, sorted insertion, location order (spec/Feat.tla)."""
from fam_generic import Family, run_family, run_families
from fam_stream import stream_family


def M(mode, L, maxins, batch, stride, mc=True):
    return dict(consts=dict(Mode=mode, L=L, MaxIns=maxins, Batch=batch, Stride=stride, Offset=0), mc=mc)


FAM = Family(
    "feat", "MC_Feat", "Trace_Feat", "feat", case_fam=("less", "insert", "select", "feat"),
    rounds={"quick": [M("less", 3, 1, 200, 1), M("insert", 3, 3, 200, 1), M("select", 3, 1, 1, 1, mc=False)],
            "thorough": [M("less", 3, 1, 200, 1), M("less", 4, 1, 2000, 1, mc=False), M("insert", 3, 3, 200, 1),
                         M("insert", 3, 4, 500, 1, mc=False), M("select", 3, 1, 1, 1, mc=False)]},
    rule_text=("less: all ordered pairs of the term universe through the real LocationLess (exact agreement with the "
               "transcription whose order axioms TLC checks on all pairs/triples); insert: every insertion sequence of "
               "<= MaxIns features through FeatureSlice.Insert; select: tables x (selector strings printed by the spec, "
               "And/Or/Not/Within/Overlap/Key/strand filters) through gts.Selector and FeatureSlice.Filter"),
    assumptions=["regular expressions restricted to literal / ^lit / lit$ / ^lit$ / . / empty over a two-letter alphabet",
                 "location-based filters are judged only on features that denote residues"],
)


def run(prop, tier, seed, replay=None):
    # the statement's "gts select output": the select command driven through the record-stream family
    return run_families([FAM, stream_family("cli-select", ["select", "define"])], prop, tier, seed, replay)
