"""Extra suite X-props (not a listed property): gts.Props as a state machine (spec/Props.tla)."""
from fam_generic import Family, run_family


def P(maxops, maxvs, keys='{"a", "b"}'):
    return dict(consts=dict(Keys=keys, Vals='{"x", "y"}', MaxOps=maxops, MaxVs=maxvs), mc=True)


FAM = Family(
    "props", "MC_Props", "Trace_Props", "props", devs=False,
    invariant="NoDupKeys ItemsAreRows\nPROPERTIES SetGet DelGone Isolation", gen_invariant="EmitCase", dedupe=True, mc_workers=8,
    rounds={"quick": [P(3, 2)], # one key, five operations: long enough for rows with spare capacity to be shared by a shallow copy
            "thorough": [P(4, 2), P(5, 1, keys='{"a"}')]},
    rule_text=("every history of MaxOps operations out of Set/Add/Del (keys a,b; 0..MaxVs values from x,y) on the original "
               "and, after Clone, on either handle; replayed on real gts.Props values; after every operation the rows of "
               "both handles, Keys, Items and Index/Has/Get of three keys are compared with the model state"),
)


def run(prop, tier, seed, replay=None):
    return run_family(FAM, prop, tier, seed, replay)
