"""C18: IUPAC alphabet, Search, Match (spec/Alphabet.tla)."""
from fam_generic import Family, run_family


def M(mode, maxseq, maxq, stride, mc=True):
    return dict(consts=dict(Mode=mode, MaxSeq=maxseq, MaxQ=maxq, Batch=200, Stride=stride, Offset=0), mc=mc)


FAM = Family(
    "alpha", "MC_Alpha", "Trace_Alpha", "alpha", devs='{"MatchK"}',
    rounds={"quick": [M("tables", 1, 1, 1), M("scan", 4, 2, 1, mc=False)],
            "thorough": [M("tables", 1, 1, 1), M("scan", 6, 3, 1, mc=False)]},
    rule_text=("tables: all 256 bytes through Complement/Transcribe and the full query-letter x sequence-letter matrix "
               "(both cases, plus non-alphabet bytes) through Match; scan: every sequence <= MaxSeq and query <= MaxQ over "
               "the alphabets {a,c,k} {a,n,[} {A,t,*} {g,.,(} through Search and Match"),
    assumptions=["a sequence byte outside the IUPAC alphabet has no base set: such pairs are judged only for literal queries"],
)


def run(prop, tier, seed, replay=None):
    return run_family(FAM, prop, tier, seed, replay)
