"""C18: IUPAC alphabet, Search, Match (spec/Alphabet.tla)."""
from fam_generic import Family, run_family, run_families


def M(mode, maxseq, maxq, stride, mc=True):
    return dict(consts=dict(Mode=mode, MaxSeq=maxseq, MaxQ=maxq, Batch=200, Stride=stride, Offset=0), mc=mc)


FAM = Family(
    "alpha", "MC_Alpha", "Trace_Alpha", "alpha", devs='{"MatchK"}', case_fam=("scan", "tables"),
    rounds={"quick": [M("tables", 1, 1, 1), M("scan", 4, 2, 1, mc=False)],
            "thorough": [M("tables", 1, 1, 1), M("scan", 6, 3, 1, mc=False)]},
    rule_text=("tables: all 256 bytes through Complement/Transcribe and the full query-letter x sequence-letter matrix "
               "(both cases, plus non-alphabet bytes) through Match; scan: every sequence <= MaxSeq and query <= MaxQ over "
               "the alphabets {a,c,k} {a,n,[} {A,t,*} {g,.,(} through Search and Match"),
    assumptions=["a sequence byte outside the IUPAC alphabet has no base set: such pairs are judged only for literal queries"],
)


def CS(maxseq, maxq, stride=1):
    return dict(consts=dict(MaxSeq=maxseq, MaxQ=maxq, Batch=40, Stride=stride, Offset=0), mc=False)


CLI = Family(
    "clisearch", "MC_AlphaCli", "Trace_AlphaCli", "cli", devs=False, invariant=None, needs_gts=True, case_fam="clisearch",
    rounds={"quick": [CS(3, 3)], "thorough": [CS(5, 4)]},
    rule_text=("command-line clause: every record over {a,c,g,t} of 1..MaxSeq residues x every query over {a,c,n} (plus upper "
               "case and g,t) of 1..MaxQ letters x -e x --no-complement; `gts search` of the binary built from the tree is run "
               "on a one-record GenBank file; the added features must be exactly SearchAll / MatchScan of the query on the "
               "forward strand and on the reverse complement (as complement locations), each once"),
)


def run(prop, tier, seed, replay=None):
    return run_families([FAM, CLI], prop, tier, seed, replay)
