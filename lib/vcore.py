"""Common machinery of the gts verification checks.

Every check follows the loop of DESIGN.md section 2:
  TLC design check -> TLC case generation -> replay on the real code (Go
  harness, rebuilt from /repo's working tree) -> TLC trace validation ->
  classification against known_findings.json -> evidence.
Exit codes: 0 property held on everything explored (known findings are
printed), 1 violation (a line `VIOLATION property=<id> replay=<path>`),
2 the machinery could not decide (never a violation).
"""
import json
import os
import re
import shutil
import subprocess
import sys
import tempfile
import time
from concurrent.futures import ThreadPoolExecutor

VERIF = os.path.dirname(os.path.dirname(os.path.abspath(__file__)))
REPO = os.environ.get("VERIF_REPO", "/repo")
SPEC = os.path.join(VERIF, "spec")
HARNESS_SRC = os.path.join(VERIF, "harness")
JAR = "/opt/veriftools/tla/tla2tools.jar:/opt/veriftools/tla/CommunityModules-deps.jar"
NCPU = os.cpu_count() or 4

GOENV = dict(GOFLAGS="-mod=mod", GOPROXY="off", GOSUMDB="off", GOTOOLCHAIN="local",
             CGO_ENABLED="0")


class Undecided(Exception):
    """The machinery failed (dead driver, TLC error, timeout): exit 2."""


def die_undecided(msg):
    print("UNDECIDED: " + msg, flush=True)
    sys.exit(2)


class Work:
    """Scratch directory, removed on exit."""

    def __init__(self, tag):
        self.dir = tempfile.mkdtemp(prefix="verif-%s-" % tag)
        self.n = 0

    def sub(self, name):
        self.n += 1
        d = os.path.join(self.dir, "%s-%d" % (name, self.n))
        os.makedirs(d)
        return d

    def path(self, name):
        return os.path.join(self.dir, name)

    def cleanup(self):
        shutil.rmtree(self.dir, ignore_errors=True)


def goenv():
    env = dict(os.environ)
    env.update(GOENV)
    return env


def build_harness(work, tags=None):
    """Build the Go harness against /repo's current working tree."""
    out = work.path("harness")
    src = work.sub("hsrc")
    for f in os.listdir(HARNESS_SRC):
        if f.endswith(".go"):
            shutil.copy(os.path.join(HARNESS_SRC, f), src)
    with open(os.path.join(src, "go.mod"), "w") as fh:
        fh.write("module verifharness\n\ngo 1.15\n\nrequire github.com/go-gts/gts v0.0.0\n\n"
                 "replace github.com/go-gts/gts => %s\n" % REPO)
    shutil.copy(os.path.join(REPO, "go.sum"), os.path.join(src, "go.sum"))
    cmd = ["go", "build", "-o", out]
    if tags:
        cmd += ["-tags", tags]
    cmd += ["."]
    p = subprocess.run(cmd, cwd=src, env=goenv(), capture_output=True, text=True)
    if p.returncode != 0:
        raise Undecided("harness build failed (does /repo compile?):\n" + p.stdout + p.stderr)
    return out


def build_gts(work, tags="verif"):
    """Build the gts binary from /repo's working tree (hooks enabled)."""
    out = work.path("gts")
    cmd = ["go", "build", "-o", out]
    if tags:
        cmd += ["-tags", tags]
    cmd += ["./cmd/gts"]
    p = subprocess.run(cmd, cwd=REPO, env=goenv(), capture_output=True, text=True)
    if p.returncode != 0:
        raise Undecided("gts build failed:\n" + p.stdout + p.stderr)
    return out


def run_tlc(work, module, cfg_text, env=None, workers=1, timeout=1800, extra=None,
            heap="4g", simulate=None):
    """Run TLC on spec/<module>.tla with the given cfg text in a private copy."""
    d = work.sub("tlc")
    for f in os.listdir(SPEC):
        if f.endswith(".tla"):
            shutil.copy(os.path.join(SPEC, f), d)
    with open(os.path.join(d, "run.cfg"), "w") as fh:
        fh.write(cfg_text)
    e = dict(os.environ)
    e.pop("JAVA_TOOL_OPTIONS", None)
    if env:
        e.update({k: str(v) for k, v in env.items()})
    cmd = ["java", "-Xss256m", "-Xmx" + heap, "-XX:+UseParallelGC", "-Djava.io.tmpdir=" + d,
           "-cp", JAR, "tlc2.TLC", "-metadir", os.path.join(d, "meta"), "-config", "run.cfg",
           "-workers", str(workers)]
    if simulate:
        cmd += ["-simulate", simulate]
    if extra:
        cmd += extra
    cmd += [module + ".tla"]
    t0 = time.time()
    try:
        p = subprocess.run(cmd, cwd=d, env=e, capture_output=True, text=True, timeout=timeout)
    except subprocess.TimeoutExpired:
        raise Undecided("TLC timed out on %s after %ds" % (module, timeout))
    out = p.stdout + p.stderr
    shutil.rmtree(d, ignore_errors=True)
    return p.returncode, out, time.time() - t0


def tlc_stats(out):
    m = re.search(r"(\d+) states generated, (\d+) distinct states found", out)
    if not m:
        return 0, 0
    return int(m.group(2)), int(m.group(1))


def tlc_failed(out):
    """TLC errors that are machinery failures (not invariant violations)."""
    bad = []
    for line in out.splitlines():
        if line.startswith("Error:") and "Invariant" not in line and "behavior up to this point" not in line:
            bad.append(line)
        if "Exception" in line and "TLC threw" in line:
            bad.append(line)
    return bad


def shard_lines(path, k, work, prefix):
    """Split an ndjson file into k shards (round-robin by line)."""
    files = [work.path("%s.%d" % (prefix, i)) for i in range(k)]
    fhs = [open(f, "w") for f in files]
    n = 0
    with open(path) as fh:
        for line in fh:
            if line.strip():
                fhs[n % k].write(line)
                n += 1
    for f in fhs:
        f.close()
    used = [f for i, f in enumerate(files) if i < n]
    return used, n


def run_harness(harness, driver, infile, outfile, args=None, timeout=3600):
    with open(infile) as fi, open(outfile, "w") as fo:
        try:
            p = subprocess.run([harness, driver] + (args or []), stdin=fi, stdout=fo,
                               stderr=subprocess.PIPE, text=True, timeout=timeout)
        except subprocess.TimeoutExpired:
            raise Undecided("harness %s timed out" % driver)
    if p.returncode != 0:
        raise Undecided("harness %s died: rc=%d %s" % (driver, p.returncode, p.stderr[-2000:]))
    return outfile


def parallel(fn, items, workers=NCPU):
    with ThreadPoolExecutor(max_workers=workers) as ex:
        return list(ex.map(fn, items))


def read_ndjson(path):
    out = []
    with open(path) as fh:
        for line in fh:
            line = line.strip()
            if line:
                out.append(json.loads(line))
    return out


def decode_case_line(line):
    s = line.strip()
    if s.startswith('"'):
        s = json.loads(s)
    return json.loads(s)


def validate_trace(work, module, cfg_text, trace, verdicts, extra_env=None, timeout=3600, heap="3g"):
    """Run the trace spec over one trace shard; returns (summary, verdict list)."""
    env = {"TRACE": trace, "VERDICTS": verdicts}
    if extra_env:
        env.update(extra_env)
    if os.path.exists(verdicts):
        os.remove(verdicts)
    rc, out, dt = run_tlc(work, module, cfg_text, env=env, workers=1, timeout=timeout, heap=heap)
    bad = tlc_failed(out)
    if rc != 0 or bad or not os.path.exists(verdicts):
        raise Undecided("trace validation of %s failed (rc=%d): %s\n%s" % (trace, rc, bad[:3], out[-3000:]))
    vs = read_ndjson(verdicts)
    if not vs or "consumed" not in vs[0]:
        raise Undecided("trace validation wrote no summary for %s" % trace)
    return vs[0], vs[1:], tlc_stats(out)


# the extra (not listed) conformance suites keep their own findings and evidence
KNOWN_FILE = "known_findings.json"
EVIDENCE_DIR = os.environ.get("VERIF_EVIDENCE_DIR", "evidence")   # mutant runs keep their evidence apart
REPLAY_DIR = "replays"


def load_known():
    with open(os.path.join(VERIF, KNOWN_FILE)) as fh:
        return json.load(fh)


def write_evidence(prop, tier, seed, coverage, wall, violations, assumptions=None, level="model_checking"):
    os.makedirs(os.path.join(VERIF, EVIDENCE_DIR), exist_ok=True)
    ev = {
        "property_id": prop, "tier": tier, "seed": seed, "level": level,
        "coverage": coverage, "assumptions": assumptions or [], "wall_s": round(wall, 2),
        "violations": violations,
    }
    path = os.path.join(VERIF, EVIDENCE_DIR, prop + ".json")
    tmp = path + ".tmp"
    with open(tmp, "w") as fh:
        json.dump(ev, fh, indent=1, sort_keys=True)
        fh.write("\n")
    os.replace(tmp, path)
    return path


def save_replay(prop, name, obj_lines):
    """Keep a failing case where the VIOLATION line can point at it."""
    d = os.path.join(VERIF, REPLAY_DIR)
    os.makedirs(d, exist_ok=True)
    safe = re.sub(r"[^A-Za-z0-9_.-]", "_", name)[:80]
    path = os.path.join(d, "%s-%s.ndjson" % (prop, safe))
    with open(path, "w") as fh:
        for o in obj_lines:
            fh.write(json.dumps(o) + "\n")
    return path
