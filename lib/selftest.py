"""Binding self-test: is every field that the harness records actually constrained by the trace specification?

For a family: generate a few cases with TLC, replay them on the real code (unchanged tree), then corrupt ONE recorded
field of ONE event at a time (number +1, string + "~", boolean flipped, list shortened / lengthened) and validate the
corrupted trace.  A corruption is *detected* when the trace spec raises a verdict for the corrupted group of lines
that it did not raise for the original.  The output is a table  event type x field -> detected / tried.
Fields that are echo of the case description (ids, printed forms used only in messages) are expected to be unjudged;
every *observation* of the implementation should be detected - an undetected one is a blind spot of the specification.
"""
import copy
import json
import os
import random
import time

from fam_generic import mc_cfg, trace_cfg
from vcore import (Undecided, Work, build_harness, build_gts, run_tlc, tlc_failed, run_harness, parallel,
                   validate_trace, REPO, VERIF)


def leaves(obj, path=()):
    """(path, value) for every scalar leaf and every list node."""
    if isinstance(obj, dict):
        for k in sorted(obj):
            yield from leaves(obj[k], path + (k,))
    elif isinstance(obj, list):
        yield path, obj
        for i, x in enumerate(obj):
            yield from leaves(x, path + (i,))
    else:
        yield path, obj


def setpath(obj, path, value):
    for p in path[:-1]:
        obj = obj[p]
    obj[path[-1]] = value


def corruptions(value):
    if isinstance(value, bool):
        return [("flip", not value)]
    if isinstance(value, int):
        return [("+1", value + 1)]
    if isinstance(value, str):
        return [("~", value + "~")]
    if isinstance(value, list):
        out = []
        if value:
            out.append(("drop-last", value[:-1]))
            out.append(("dup-last", value + [copy.deepcopy(value[-1])]))
        return out
    return []


def generalise(path):
    return ".".join("*" if isinstance(p, int) else str(p) for p in path)


def groups_of(lines, stateful):
    if not stateful:
        return [[i] for i in range(len(lines))]
    out, cur, cid = [], [], None
    for i, ev in enumerate(lines):
        c = ev.get("case")
        if ev.get("ev") == "case" or c != cid:
            if cur:
                out.append(cur)
            cur, cid = [], c
        cur.append(i)
    if cur:
        out.append(cur)
    return out


def sensitivity(name, fam, consts, stateful=False, max_cases=6, per_field=6, skip_fields=(), seed=0, trace_module=None,
                seqfam=False):
    rnd = random.Random(seed)
    work = Work("selftest-" + name)
    t0 = time.time()
    try:
        harness = build_harness(work, tags=getattr(fam, "tags", None))
        extra = list(getattr(fam, "harness_args", []) or [])
        if getattr(fam, "needs_gts", False):
            extra += ["-gts", build_gts(work), "-data", os.path.join(REPO, "seqio", "testdata")]
        cases = work.path("cases.ndjson")
        if seqfam:
            import fam_seq
            cfg = fam_seq.cfg_text(consts["Ls"], consts["family"], consts["kinds"], consts["stride"], 0, False,
                                   purelen=consts.get("purelen", 1))
            mc_module, trace_module, driver, tcfg = "MC_Seq", "Trace_Seq", "seq", fam_seq.TRACE_CFG
        else:
            cfg = mc_cfg(consts, fam.gen_invariant, spec=fam.gen_spec, devs=fam.devs)
            mc_module, trace_module, driver = fam.mc_module, fam.trace_module, fam.driver
            tcfg = trace_cfg(fam.devs, fam.trace_consts)
        rc, out, dt = run_tlc(work, mc_module, cfg, env={"CASES": cases}, workers=1, timeout=1800, heap="8g")
        if rc != 0 or tlc_failed(out) or not os.path.exists(cases):
            raise Undecided("case generation failed:\n" + out[-2000:])
        with open(cases) as fh:
            all_cases = [l for l in fh if l.strip()]
        rnd.shuffle(all_cases)
        with open(cases, "w") as fh:
            fh.writelines(all_cases[:max_cases])
        tr = work.path("base.trace")
        run_harness(harness, driver, cases, tr, args=extra)
        with open(tr) as fh:
            lines = [json.loads(l) for l in fh if l.strip()]
        summ, base_vs, _ = validate_trace(work, trace_module, tcfg, tr, work.path("base.verdicts"))
        groups = groups_of(lines, stateful)
        # verdicts the unchanged trace already has (known findings), relative to the start of their group
        base_of = {}
        for gi, g in enumerate(groups):
            lo, hi = g[0] + 1, g[-1] + 1
            base_of[gi] = {(v["line"] - lo, v["rule"], v["label"]) for v in base_vs if lo <= v["line"] <= hi}
        # candidate corruptions, grouped by (event type, generalised field)
        cands = {}
        for gi, g in enumerate(groups):
            for i in g:
                ev = lines[i]
                for path, val in leaves(ev):
                    if not path or path[0] in ("case", "ev") + tuple(skip_fields):
                        continue
                    for cname, cval in corruptions(val):
                        cands.setdefault((ev.get("ev", "?"), generalise(path)), []).append((gi, i, path, cname, cval))
        chosen = []
        for key in sorted(cands):
            lst = cands[key]
            rnd.shuffle(lst)
            for c in lst[:per_field]:
                chosen.append((key, c))
        # one trace per shard: corrupted copies of whole groups, case ids made unique
        nsh = 16
        shards = [[] for _ in range(nsh)]
        for n, (key, c) in enumerate(chosen):
            shards[n % nsh].append((n, key, c))

        def run_shard(items):
            if not items:
                return {}
            path = work.path("mut-%d.trace" % items[0][0])
            spans = {}
            ln = 0
            with open(path, "w") as fh:
                for n, key, (gi, i, p, cname, cval) in items:
                    start = ln + 1
                    for j in groups[gi]:
                        ev = copy.deepcopy(lines[j])
                        if "case" in ev and isinstance(ev["case"], str):
                            ev["case"] = "%s#%d" % (ev["case"], n)
                        if j == i:
                            setpath(ev, p, cval)
                        fh.write(json.dumps(ev) + "\n")
                        ln += 1
                    spans[n] = (start, ln, gi)
            try:
                s, vs, _ = validate_trace(work, trace_module, tcfg, path, path + ".verdicts")
            except Undecided as e:
                return {n: "crash" for n in spans} if len(items) == 1 else \
                    {k: v for it in items for k, v in run_shard([it]).items()}
            hit = {}
            for n, (a, b, gi) in spans.items():
                got = {(v["line"] - a, v["rule"], v["label"]) for v in vs if a <= v["line"] <= b}
                hit[n] = "detected" if got != base_of[gi] else "silent"
            return hit

        res = {}
        for r in parallel(run_shard, shards):
            res.update(r)
        table = {}
        for n, (key, c) in enumerate(chosen):
            t = table.setdefault(key, dict(tried=0, detected=0, crash=0, how=set()))
            t["tried"] += 1
            if res.get(n) == "detected":
                t["detected"] += 1
            elif res.get(n) == "crash":
                t["crash"] += 1
        return dict(family=name, events=len(lines), groups=len(groups), corruptions=len(chosen), wall_s=round(time.time() - t0, 1),
                    fields=[dict(ev=k[0], field=k[1], tried=v["tried"], detected=v["detected"], crashed=v["crash"])
                            for k, v in sorted(table.items())])
    finally:
        work.cleanup()
