"""C14: cache transparency of the gts CLI (spec/CacheCLI.tla)."""
from fam_generic import Family, run_family


def H(hlen, stride):
    return dict(consts=dict(NKeys=3, FailKeys="{3}", HLen=hlen, Stride=stride, Offset=0), mc=True)


FAM = Family(
    "cachecli", "MC_CacheCLI", "Trace_CacheCLI", "cli", devs=False, needs_gts=True,
    invariant="Transparent DirSound", mc_spec="MSpec", gen_spec="GSpec", mc_workers=4,
    rounds={"quick": [H(2, 1), H(3, 6)],
            "thorough": [H(3, 1), H(4, 1)]},
    rule_text=("one case = one history over a fresh cache directory: the probe invocation of a cached subcommand and one "
               "neighbour differing in exactly one option / positional argument / output format / primary or secondary "
               "input, first uncached (twice each: reference and determinism), then every sequence of length <= HLen over "
               "{probe, neighbour} x {stdout, -o file} with caching on; the gts binary built from the tree is run for "
               "every step; every cached run must print and exit exactly like its uncached reference"),
    assumptions=["inputs from the repository corpus (phiX174, its slice, E. coli excerpt, pBAT5, two-record stream, a "
                 "truncated record that makes commands fail)"],
)


def run(prop, tier, seed, replay=None):
    return run_family(FAM, prop, tier, seed, replay)
