"""C06: location text round trip and join reduction (spec/LocText.tla)."""
from fam_generic import Family, run_family


def T(L, stride, mc=True):
    return dict(consts=dict(Mode="terms", L=L, Batch=50, Stride=stride, Offset=0, MaxTok=1), mc=mc)


def S(maxtok, stride):
    return dict(consts=dict(Mode="strings", L=4, Batch=500, Stride=stride, Offset=0, MaxTok=maxtok), mc=False)


FAM = Family(
    "loctext", "MC_LocText", "Trace_LocText", "loctext",
    rounds={"quick": [T(4, 3), S(4, 2)],
            "thorough": [T(4, 1), T(5, 2, mc=False), S(5, 1)]},
    rule_text=("terms: every raw location term of the bounded universe (depth<=3, 1..5 parts incl. abutting, duplicate, "
               "single-base, between, nested, complemented), built through gts.Join/Order/Complement, printed, re-parsed, "
               "re-printed, re-built; strings: every token string of length<=MaxTok over the location alphabet, "
               "parse/print/parse/print; each event judged by LocText"),
    assumptions=["PrintLoc (spec) is the INSDC text form; the parser is the code under test, not modelled"],
)


def run(prop, tier, seed, replay=None):
    return run_family(FAM, prop, tier, seed, replay)
