import fam_seq


def lookup(prop):
    if prop in fam_seq.PROPS:
        return fam_seq.run
    return None
