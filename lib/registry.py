import fam_seq
import fam_loctext
import fam_region
import fam_feat
import fam_alpha
import fam_textio
import fam_cache
import fam_cachecli
import fam_cli
import fam_genbank
import fam_parse


def lookup(prop):
    if prop in fam_seq.PROPS:
        return fam_seq.run
    if prop == "C06":
        return fam_loctext.run
    if prop in ("C08", "C09"):
        return fam_region.run
    if prop == "C19":
        return fam_feat.run
    if prop == "C18":
        return fam_alpha.run
    if prop in ("C16", "C17"):
        return fam_textio.run
    if prop == "C13":
        return fam_cache.run
    if prop == "C14":
        return fam_cachecli.run
    if prop == "C15":
        return fam_cli.run
    if prop == "C01":
        return fam_genbank.run
    if prop == "C07":
        return fam_parse.run
    return None
