import fam_seq
import fam_loctext
import fam_region
import fam_feat
import fam_alpha
import fam_textio


def lookup(prop):
    if prop in fam_seq.PROPS:
        return fam_seq.run
    if prop == "C06":
        return fam_loctext.run
    if prop in ("C08", "C09"):
        return fam_region.run
    if prop == "C19":
        return fam_feat.run
    if prop == "C18":
        return fam_alpha.run
    if prop in ("C16", "C17"):
        return fam_textio.run
    return None
