import fam_seq
import fam_loctext


def lookup(prop):
    if prop in fam_seq.PROPS:
        return fam_seq.run
    if prop == "C06":
        return fam_loctext.run
    return None
