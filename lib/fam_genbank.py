"""C01: GenBank write-read-write closure and fidelity (spec/GenBank.tla)."""
import os

from fam_generic import Family, run_family, run_families
from vcore import REPO

DEVS = '{"QuoteInValue", "TrailingBackslash", "OrganismWrap"}'


def M(mode, stride=1, y0=2000, y1=2000, batch=200, pipelen=1, mc=False):
    return dict(consts=dict(Mode=mode, Y0=y0, Y1=y1, Batch=batch, Stride=stride, Offset=0, PipeLen=pipelen), mc=mc)


class GBFamily(Family):
    pass


FAM = GBFamily(
    "genbank", "MC_GenBank", "Trace_GenBank", "gbrec", devs=False, case_fam=None,
    rounds={"quick": [M("registry", mc=True), M("shapes"), M("dates", y0=1999, y1=2001), M("pad", y0=0, y1=4300, batch=25), M("corpus", pipelen=1),
                      M("corpus", pipelen=2, stride=7)],
            "thorough": [M("registry", mc=True), M("shapes"), M("dates", y0=1900, y1=2100, batch=500), M("pad", y0=0, y1=9000, batch=25),
                         M("corpus", pipelen=2), M("corpus", pipelen=3), M("corpus", pipelen=4, stride=29)]},
    trace_consts=dict(Devs=DEVS),
    harness_args=["-data", os.path.join(REPO, "seqio", "testdata")],
    rule_text=("shapes: a base record with every alternative of every header field / feature table / qualifier form / "
               "sequence length (one factor at a time and every pair of alternatives of two fields), streams of 1..3 records; "
               "registry: every teaching history (<= 3 sightings of two fresh qualifier names in quoted/literal/toggle form) "
               "followed by a record using those names; dates: every calendar date of the range in the LOCUS line; corpus: "
               "every pipeline of <= PipeLen edit operations (insert, embed, delete, erase, slice incl. wrap and empty windows, "
               "rotate, reverse, complement, concat, clear, repair) over the four corpus records with a write-scan-write "
               "after every step.  Every record: FIFO count, field-by-field equality, byte-identical second write."),
    assumptions=["free text is compared by equality (conformance with a thin model)",
                 "long sequences (> 400 residues) are compared by SHA-1 digest"],
)


PIPE = Family(
    "clipipe", "MC_CliPipe", "Trace_CliPipe", "cli", devs=False, invariant=None, needs_gts=True, case_fam="clipipe",
    rounds={"quick": [dict(consts=dict(Stride=3, Offset=0), mc=False)], "thorough": [dict(consts=dict(Stride=1, Offset=0), mc=False)]},
    rule_text=("command-line clause: every pipeline gts A < input | gts B over five corpus inputs, 23 record-producing "
               "commands A and 8 reading commands B; what A writes B must accept, what B writes seqio must read back and "
               "re-write byte for byte"),
)


def run(prop, tier, seed, replay=None):
    return run_families([FAM, PIPE], prop, tier, seed, replay)
