import os
VERIF = os.path.dirname(os.path.dirname(os.path.abspath(__file__)))

SETUP = "bin/setup"
HOOKS = {
    "guard": "verif",
    "enable": "go build -tags verif ./cmd/gts (the checks build the binary and the harness from /repo's working tree themselves)",
    "baseline_off_cmd": "cd /repo && GOFLAGS=-mod=mod GOPROXY=off GOSUMDB=off GOTOOLCHAIN=local go test -vet=off -count=1 ./...",
    "source_commits": ["207bd39"],
    "add_only": True,
}
ENGINES = [
    {"name": "tlc", "path": "/opt/veriftools/tla/tla2tools.jar",
     "serves_properties": ["C01", "C07", "C02", "C03", "C04", "C05", "C06", "C08", "C09", "C10", "C11", "C12", "C13", "C14", "C15", "C16", "C17", "C18", "C19"],
     "kind_free_text": "TLC 1.8.0: bounded design check of the calculus layer against the abstract layer (MC_*.tla), "
                       "behaviour generation (same modules, env CASES), trace validation of the real code (Trace_*.tla)"},
    {"name": "harness", "path": "/verif/harness", "serves_properties": [],
     "kind_free_text": "Go replay drivers (std lib only, replace gts => /repo); log raw structure, contain no oracle"},
]
NOTES = ("Every check: TLC design check -> TLC-generated behaviours replayed on the real code -> TLC trace validation. "
         "Exit 2 = undecided (machinery), never a violation. known_findings.json lists recorded and fixed defects.")

SEQ_NOTE = ("small-scope hypothesis (host lengths and the bounded term universe stated in the evidence); residue "
            "identities are distinct bytes; weakest readings of DESIGN.md section 3; TLC and the Go harness are trusted")


def seq(text, ref, tech="TLA+ Seq workspace machine: TLC design check (calculus refines abstract) + TLC-generated behaviours replayed on the real library + TLC trace validation"):
    return dict(text=text, design_ref=ref, note=SEQ_NOTE, technique=tech)


CHECKS = {
    "C02": seq("Exhaustive (within stated bounds) enumeration by TLC of host tables x insertion index x guest length; every "
               "Insert/Embed of the real library is projected to residue identities and judged by Seq.tla (residues, each "
               "host/guest feature once, denotation, outer markers, well-formedness).", "DESIGN.md 5 C02"),
    "C03": seq("TLC enumerates every (location term, deletion / erase / slice window incl. wrap-around and negative indices); "
               "the real Delete/Erase/Slice are judged on denoted residue identities, outer partial markers, sites at the cut, "
               "dropping, well-formedness, topology, and the REFERENCE base ranges after Slice (RefRule); pieces cut from one "
               "shared value (no defensive copies) are judged as well.", "DESIGN.md 5 C03"),
    "C04": seq("TLC enumerates every rotation amount in [-3L,3L] and (sampled/exhaustive) pairs (a,b); the real Rotate is "
               "judged on identities (pure re-origin), and the additive / inverse laws are checked as laws of the workspace.",
               "DESIGN.md 5 C04"),
    "C05": seq("TLC enumerates terms of every kind and arity 1..5 under Reverse, Complement and Reverse o Complement; judged "
               "on mirrored identities, swapped markers, sites, involution and extraction equality.", "DESIGN.md 5 C05"),
    "C06": dict(text="TLC enumerates raw location terms (depth<=3, 1..5 parts) and all token strings up to a length bound; "
                     "the real constructors, String and parser are judged by LocText.tla (reduction preserves the "
                     "denotation, print/parse fixed point, idempotence).",
                design_ref="DESIGN.md 5 C06", note="the parser is the code under test (no parser in TLA+); PrintLoc is the "
                "specification of the text form; bounded universe", technique="TLA+ LocText: TLC design check of the "
                "transcribed reduction + TLC-generated terms/strings replayed + TLC trace validation"),
    "C08": dict(text="TLC enumerates regions (1..5 segments, either strand, mixed, nested) x all five modifier forms x offsets; "
                     "real Region.Resize/Locate/Modifier text judged against 'slice of the spliced coordinate, extended outward'; "
                     "a second generator (MC_Locator) enumerates locator strings X@M over feature tables and Trace_Locator judges "
                     "the regions gts.AsLocator(string)(record) returns.",
                design_ref="DESIGN.md 5 C08", note="bounded segment counts/lengths; selectors inside locators by key (clauses are C19's)",
                technique="TLA+ Region: TLC design check of transcribed Resize/Apply + generated cases replayed + trace validation"),
    "C09": dict(text="TLC enumerates region collections over [0,N]; real Minimize/InvertLinear/InvertCircular judged as an "
                     "exact partition of [0,N) with maximal runs.",
                design_ref="DESIGN.md 5 C09", note="bounded N and collection size", technique="TLA+ Region: TLC design check "
                "of transcribed Minimize/Invert + generated cases replayed + trace validation"),
    "C10": seq("Two- and multi-step workspace programs generated by TLC (insert;delete, embed;delete, slice*;concat for every "
               "cut set) replayed on the real library; each step judged, then the restoration laws.", "DESIGN.md 5 C10"),
}
CHECKS["C11"] = seq(
    "TLC generates sequences of 1..4 library calls applied to the same original values in every storage configuration "
    "(len==cap, spare capacity, sub-slice of a larger buffer, two arguments side by side in one buffer and in one shared "
    "feature table, unparsed/parsed Origin; GenBank and basic sequences); the harness passes the arguments uncopied and re-reads every record through its "
    "accessors after every call; Trace_Seq requires every re-read to equal the abstract record (the machine never changes a "
    "bound record) and a repeated application to give the same result.", "DESIGN.md 5 C11",
    tech="TLA+ Seq workspace machine (records are immutable): TLC-generated call sequences x storage configurations replayed uncopied + probe events validated by TLC")
CHECKS["C12"] = seq(
    "TLC generates (a) cut;...;cut;concat;repair;repair programs for every cut set of 1..3 positions over tables of built "
    "location values with table-unique classes and (b) tables in which several features share key and qualifiers; the real "
    "Repair is judged on the safety clauses (no panic, idempotent, identity without a mergeable pair, per-class coverage, "
    "merged outputs form a chain of mergeable pairs) and on the restoration law (table equals the original wherever the "
    "pieces form a mergeable chain).", "DESIGN.md 5 C12")
CHECKS["C19"] = dict(
    text="TLC checks the order axioms (irreflexive, asymmetric, transitive) on the transcribed LocationLess over all pairs and "
         "triples of a bounded term universe and that binary-search insertion keeps the table sorted for every insertion "
         "sequence; the real LocationLess must agree on every pair, the real FeatureSlice.Insert / Filter / Selector are "
         "replayed on TLC-generated sequences, tables, selector strings and filter combinators and judged by Feat.tla.",
    design_ref="DESIGN.md 5 C19", note="regexps restricted to a TLA+-definable subset; bounded universes",
    technique="TLA+ Feat: TLC design check (order axioms, sorted insertion) + generated cases replayed + trace validation")
CHECKS["C18"] = dict(
    text="The complement/transcription tables are derived in TLA+ from the IUPAC base sets and TLC checks involution and "
         "agreement of the transcribed Match character classes with base-set containment; the real Complement/Transcribe "
         "(all 256 bytes), Match (full letter matrix) and Search/Match (all small sequences x queries) are replayed and judged.",
    design_ref="DESIGN.md 5 C18", note="tables complete; scans bounded by sequence/query length over four 3-letter alphabets",
    technique="TLA+ Alphabet: derived tables + TLC design check + exhaustive table replay + trace validation")
CHECKS["C16"] = dict(
    text="The ORIGIN layout is specified as arithmetic (Lines(n), BlockLen(n)); TLC checks that the transcribed "
         "toOriginLength/fromOriginLength agree with it and are mutually inverse for every n in the bound, Apalache "
         "discharges the identities for all n in Nat; the real NewOrigin/String/Bytes/Len and the reader's fast and slow "
         "paths are replayed for every length and judged against Lines(n).",
    design_ref="DESIGN.md 5 C16", note="lengths 0..MaxN (quick 2000, thorough 50000) plus windows around the index-width changes up to 10^7; two residue alphabets",
    technique="TLA+ TextIO: TLC design check of the size arithmetic + Apalache (unbounded) + every length replayed + trace validation")
CHECKS["C17"] = dict(
    text="FASTA wrapping is specified as WrapLines(n,70) and the record stream as a FIFO of (description, residues); TLC "
         "generates the length sweep, the real writer/scanner are replayed (LF and CRLF) and every stream is judged: k-th "
         "record read = k-th written, line lengths = WrapLines; GenBank->FASTA description and residues.",
    design_ref="DESIGN.md 5 C17", note="free text is compared by equality (conformance with a thin model)",
    technique="TLA+ TextIO: TLC-generated length sweep replayed + FIFO/wrap judgement by trace validation")
CHECKS["C13"] = dict(
    text="Cache.tla models the entry file (three header slots over an abstract injective digest + body blocks) and the "
         "writer protocol step by step with an environment that crashes, tears the header write, corrupts, truncates, "
         "extends or re-keys; TLC checks OpenSafe/OpenComplete exhaustively. Every reachable fault history is replayed on "
         "the real cmd/cache code: hooks copy the on-disk file at each protocol step (real crash images, real order), every "
         "concrete image of the fault class is opened with the real cache.Open, and Trace_Cache validates step order and "
         "every Open result against the re-executed history.",
    design_ref="DESIGN.md 5 C13", note="digest strength is an assumption; hook build tag verif",
    technique="TLA+ Cache protocol: exhaustive TLC model checking + fault histories replayed on the real code through step hooks + trace validation")
CHECKS["C14"] = dict(
    text="CacheCLI.tla specifies the cache directory as a map keyed by everything that may influence the output and TLC "
         "checks Transparent/DirSound over all histories (hits, misses, failing runs, file sinks removing entries); TLC "
         "generates probe/neighbour histories for all 19 cached subcommands (neighbours differ in one flag, one option value, "
         "the split of a list-valued option, one positional argument or their order, -F, the -o extension, an input), the gts binary built from the tree is run for "
         "every step, and Trace_CacheCLI requires every cached run to equal its uncached reference.",
    design_ref="DESIGN.md 5 C14", note="histories of length <= 4 over probe/neighbour pairs; corpus inputs",
    technique="TLA+ CacheCLI: TLC design check + TLC-generated invocation histories run on the real binary + trace validation")
CHECKS["C15"] = dict(
    text="Cli.tla specifies each multi-site command on the abstract record from the regions the locator resolves to, in input "
         "coordinates and all sites at once (union removed; one guest copy per region at its 5' boundary; pieces concatenate "
         "back; first located position to index 0; one record per distinct region / maximal unlocated stretches). TLC "
         "enumerates records x locators x commands (delete, insert, infix, split, rotate, extract) x options, the gts binary built from the tree is run on each, and "
         "Trace_Cli judges the parsed outputs on residue identities.",
    design_ref="DESIGN.md 5 C15", note="generated 10-bp records; selectors by key; modifiers staying in range",
    technique="TLA+ Cli over the Seq abstract state: TLC-enumerated command configurations run on the real binary + trace validation")
CHECKS["C01"] = dict(
    text="GenBank.tla specifies the record stream as a FIFO, field-by-field fidelity, the write-read-write fixed point, the "
         "process-global qualifier registry as a state machine (TLC checks that every writable qualifier reads back under "
         "every teaching history) and the writable domain. TLC generates the field-shape product, registry histories, every "
         "calendar date and edit pipelines over the corpus; the real writer/scanner are replayed and Trace_GenBank judges "
         "every record field by field.",
    design_ref="DESIGN.md 5 C01", note="free-text fidelity is equality of logged values; pairwise (not full) product of field shapes",
    technique="TLA+ GenBank (FIFO + registry machine + writable domain): TLC design check + generated records/pipelines replayed + trace validation")
CHECKS["C07"] = dict(
    text="Parse.tla models a sequence file as a list of typed lines and structure-aware mutations as actions that update what "
         "the specification knows about the text (declared length, residues present, flags for empty DBLINK values, uneven "
         "indents, over-wide names, missing terminator). TLC enumerates mutation sequences over three seed files and token "
         "strings for the small grammars; the real scanner / parsers run under recover and a watchdog; Trace_Parse judges "
         "Total (no panic, no hang), NoShortRead (values => residues = declared) and Strict (inconsistent or truncated => error).",
    design_ref="DESIGN.md 5 C07", note="the linear-time clause is not decided (only non-termination, by watchdog); seeds and variants are a finite family",
    technique="TLA+ Parse (line-list mutation actions with consistency tracking): TLC-enumerated mutation sequences replayed + trace validation")
NOT_APPLICABLE = {}
