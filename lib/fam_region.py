"""C08 (Resize / modifiers) and C09 (Minimize / Invert): spec/Region.tla."""
from fam_generic import Family, run_family, run_families
from fam_cli import cli_family


def RZ(segs, maxlen, slack, stride, mc=True):
    return dict(consts=dict(Mode="resize", MaxSegs=segs, MaxLen=maxlen, Slack=slack, N=5, MaxRegs=2, Batch=50,
                            Stride=stride, Offset=0), mc=mc)


def MN(n, regs, stride, mc=True):
    return dict(consts=dict(Mode="minimize", MaxSegs=1, MaxLen=1, Slack=1, N=n, MaxRegs=regs, Batch=50,
                            Stride=stride, Offset=0), mc=mc)


RESIZE = Family(
    "resize", "MC_Region", "Trace_Region", "region", devs=False, case_fam="resize",
    rounds={"quick": [RZ(3, 2, 2, 1), RZ(4, 2, 2, 5, mc=False)],
            "thorough": [RZ(3, 3, 3, 1), RZ(4, 2, 3, 1), RZ(5, 2, 3, 1, mc=False)]},
    owns=lambda v: v["rule"].startswith("resize") or v["rule"].startswith("mod-") or v["rule"] == "panic",
    rule_text=("one case = one region (1..MaxSegs segments of lengths 1..MaxLen; all-forward, all-reverse, mixed, nested) "
               "x every modifier of the five forms with offsets in [-len-Slack, len+Slack]; Region.Resize, Region.Locate, "
               "Modifier.String, AsModifier on the real code; judged against ResizeDen = slice of the spliced coordinate"),
    assumptions=["regions are laid out inside a sequence long enough for every outward extension to stay in range"],
)

def LC(stride, mc=True):
    return dict(consts=dict(Batch=40, Stride=stride, Offset=0), mc=mc)


LOCATOR = Family(
    "locator", "MC_Locator", "Trace_Locator", "region", devs="{}", case_fam="locator",
    rounds={"quick": [LC(1)], "thorough": [LC(1)]},
    rule_text=("locator clause: 3 feature tables x {linear, circular} x every locator assembled from {selector by key "
               "(0..3 matches), point, range, complement(point), complement(range), nested complement, every feature, "
               "bare modifier} x {no modifier, 39 modifiers of the five forms}; gts.AsLocator(string)(record) on the real "
               "code; each returned region judged against Region!ResizeDen of the region X denotes"),
)

MINIMIZE = Family(
    "minimize", "MC_Region", "Trace_Region", "region", devs=False,
    rounds={"quick": [MN(5, 2, 1), MN(5, 3, 6, mc=False)],
            "thorough": [MN(5, 3, 1), MN(6, 3, 1, mc=False), MN(7, 2, 1)]},
    owns=lambda v: v["rule"].startswith("min-") or v["rule"].startswith("inv-") or v["rule"].endswith("-panic"),
    rule_text=("collections of 1..MaxRegs regions over [0,N] (segments of either orientation, overlapping, nested, abutting, "
               "touching the ends, plus a zero-length class), batched; gts.Minimize, InvertLinear, InvertCircular on the "
               "real code; judged as exact partition of [0,N)"),
)


def run(prop, tier, seed, replay=None):
    if prop == "C08":
        # "gts extract <locator>": the extract command on every locator of the multi-site family
        return run_families([RESIZE, LOCATOR, cli_family("cli-extract", ["extract"], quick_stride=2)], prop, tier, seed, replay)
    return run_family(MINIMIZE, prop, tier, seed, replay)
