"""Extra suite X-stream (not a listed property): the CLI as a transformer of record streams (spec/Stream.tla)."""
from fam_generic import Family, run_family

DEVS = '{"RgPt", "BwRev", "BwOrigin", "WrapSlice", "RepairCp", "RepairJn"}'


ALL_CMDS = ["reverse", "complement", "repair", "clear", "length", "join", "sort", "pick", "select", "define", "annotate", "search"]


def ST(maxstream, stride, cmds=None):
    return dict(consts=dict(MaxStream=maxstream, Stride=stride, Offset=0, CmdSet=list(cmds or ALL_CMDS)), mc=False)


def stream_family(name, cmds, quick=(2, 1), thorough=(3, 1)):
    """The record-stream family restricted to some commands (used by the property checks whose statements name
    the output of those commands)."""
    return Family(
        name, "MC_Stream", "Trace_Stream", "cli", devs=DEVS, invariant=None, needs_gts=True, case_fam="stream",
        rounds={"quick": [ST(quick[0], quick[1], cmds)], "thorough": [ST(thorough[0], thorough[1], cmds)]},
        rule_text=("command-line clause (gts %s): every stream of 0..MaxStream distinct records out of four x the command's "
                   "option sets; the gts binary built from the tree is run; inputs as the command reads them and outputs are "
                   "parsed and judged by Stream!JudgeStream (library steps through the workspace machine)" % " / ".join(cmds)),
        assumptions=["selector values are pairwise non-substrings, so 'the regexp matches' coincides with 'equals'"])


FAM = Family(
    "stream", "MC_Stream", "Trace_Stream", "cli", devs=DEVS, invariant=None, needs_gts=True,
    rounds={"quick": [ST(2, 1)], "thorough": [ST(3, 1)]},
    rule_text=("every stream of 0..MaxStream distinct records out of four (linear / circular, with joins, complements, partial "
               "ends, toggles, references, two sources, an empty table) x {reverse, complement, repair, clear, length, join, "
               "join -c, sort, sort -r, 10 pick lists, 10 selector sets x -v x -s, 6 define features}; the gts binary is run "
               "on the stream; inputs as the command reads them and outputs are parsed and judged by Stream!JudgeStream "
               "(library steps through the workspace machine of SeqMachine.tla)"),
    assumptions=["selector values are pairwise non-substrings, so 'the regexp matches' coincides with 'equals'"],
)


def run(prop, tier, seed, replay=None):
    return run_family(FAM, prop, tier, seed, replay)
