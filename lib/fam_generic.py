"""Generic loop used by the function-family checks:
   MC_<fam> (design check, bounded)  ->  MC_<fam> with env CASES (generation)
   -> harness <driver> (replay on the real code) -> Trace_<fam> (judgement).
A family is described by rounds of TLA+ constants; verdict records are
  {line, case, op, rule, label, calc}  with calc = "dev:<D>" when a named
deviation explains the verdict.
"""
import json
import os
import time

from vcore import (Undecided, Work, build_harness, run_tlc, tlc_stats, tlc_failed, shard_lines,
                   run_harness, parallel, decode_case_line, validate_trace, load_known,
                   write_evidence, save_replay, NCPU)

DEVS = '{"RgPt", "BwRev", "BwOrigin", "WrapSlice", "RepairCp", "RepairJn"}'


def consts_text(consts):
    out = []
    for k, v in consts.items():
        if isinstance(v, bool):
            out.append("  %s = %s" % (k, "TRUE" if v else "FALSE"))
        elif isinstance(v, int):
            out.append("  %s = %d" % (k, v))
        elif isinstance(v, (list, tuple, set)):
            out.append("  %s = {%s}" % (k, ", ".join(str(x) if isinstance(x, int) else '"%s"' % x for x in v)))
        elif isinstance(v, str) and v.startswith("{"):
            out.append("  %s = %s" % (k, v))
        else:
            out.append('  %s = "%s"' % (k, v))
    return "\n".join(out)


def mc_cfg(consts, invariant, spec="Spec", devs=True):
    if invariant and " " in invariant:
        invariant = invariant  # several invariants: "A B C"
    c = dict(consts)
    body = consts_text(c)
    if devs:
        body += "\n  Devs = " + (devs if isinstance(devs, str) else DEVS)
    return "SPECIFICATION %s\nCONSTANTS\n%s\n%s\nCHECK_DEADLOCK FALSE\n" % (
        spec, body, ("INVARIANT " + invariant) if invariant else "")


def trace_cfg(devs=True, consts=None):
    body = ""
    if devs or consts:
        body = "CONSTANTS\n"
        if devs:
            body += "  Devs = " + (devs if isinstance(devs, str) else DEVS) + "\n"
        if consts:
            body += consts_text(consts) + "\n"
    return "SPECIFICATION TSpec\n%sPOSTCONDITION TraceAccepted\nCHECK_DEADLOCK FALSE\n" % body


class Family:
    def __init__(self, name, mc_module, trace_module, driver, rounds, owns=None, devs=True,
                 invariant="DesignOK", harness_args=None, rule_text="", assumptions=None,
                 trace_consts=None, needs_gts=False, shards=NCPU, case_key=None, mc_workers=NCPU,
                 tags=None, dedupe=False, gen_invariant=None, thorough_args=None, mc_spec="Spec", gen_spec="Spec",
                 case_fam=None):
        self.name = name
        self.mc_module = mc_module
        self.trace_module = trace_module
        self.driver = driver
        self.rounds = rounds          # tier -> [dict(consts=..., mc=bool, stride_key=...)]
        self.owns = owns or (lambda v: True)
        self.devs = devs
        self.invariant = invariant
        self.harness_args = harness_args or []
        self.rule_text = rule_text
        self.assumptions = assumptions or []
        self.trace_consts = trace_consts
        self.needs_gts = needs_gts
        self.shards = shards
        self.case_key = case_key or (lambda v: v["case"])
        self.mc_workers = mc_workers
        self.tags = tags
        self.dedupe = dedupe
        self.gen_invariant = gen_invariant
        self.thorough_args = thorough_args or []
        self.mc_spec = mc_spec
        self.gen_spec = gen_spec
        self.case_fam = case_fam


def replay_cases(work, harness, fam, cases_file, tag, shards=None, extra_args=None):
    shards = shards or fam.shards
    files, n = shard_lines(cases_file, shards, work, "cases-" + tag)
    if n == 0:
        raise Undecided("generator produced no cases (%s)" % tag)
    tcfg = trace_cfg(fam.devs, fam.trace_consts)

    def one(f):
        tr = f + ".trace"
        run_harness(harness, fam.driver, f, tr, args=(fam.harness_args + (extra_args or [])))
        summ, vs, st = validate_trace(work, fam.trace_module, tcfg, tr, f + ".verdicts")
        nlines = sum(1 for _ in open(tr))
        if summ["consumed"] != nlines:
            raise Undecided("trace spec consumed %d of %d lines" % (summ["consumed"], nlines))
        os.remove(tr)
        return summ, vs, st

    res = parallel(one, files)
    verdicts = [v for r in res for v in r[1]]
    events = sum(r[0]["consumed"] for r in res)
    drift = sum(r[0].get("drift", 0) for r in res)
    tstates = sum(r[2][0] for r in res)
    return n, events, verdicts, drift, tstates


def find_case(case_files, cid):
    for f in case_files:
        with open(f) as fh:
            for line in fh:
                if cid in line:
                    c = decode_case_line(line)
                    if c.get("id") == cid:
                        return c
    return None


def run_family(fam, prop, tier, seed, replay=None, extra_harness_args=None):
    t0 = time.time()
    work = Work(prop)
    try:
        harness = build_harness(work, tags=fam.tags)
        extra = list(extra_harness_args or [])
        if tier == "thorough":
            extra += fam.thorough_args
        if fam.needs_gts:
            from vcore import build_gts
            from vcore import REPO
            extra += ["-gts", build_gts(work), "-data", os.path.join(REPO, "seqio", "testdata")]
        known = load_known()
        listed = {(k["property"], k["dev"]) for k in known.get("findings", []) if "dev" in k}
        if replay:
            n, events, verdicts, drift, _ = replay_cases(work, harness, fam, replay, "replay", shards=1, extra_args=extra)
            return finish(fam, prop, tier, seed, listed, known, work, harness, verdicts, None, t0, [replay], extra)
        mc_states = mc_trans = 0
        total_cases = total_events = total_drift = 0
        all_verdicts = []
        samples = []
        case_files = []
        bounds = []
        exhaustive = True
        for i, rnd in enumerate(fam.rounds[tier]):
            consts = dict(rnd["consts"])
            stride = consts.get("Stride", 1)
            if "Stride" in consts:
                consts["Offset"] = seed % stride if stride > 1 else 0
                exhaustive = exhaustive and stride == 1
            if rnd.get("sampled"):
                exhaustive = False
            if rnd.get("seed_key"):
                consts[rnd["seed_key"]] = seed
            if rnd.get("mc", True) and fam.invariant:
                rc, out, dt = run_tlc(work, fam.mc_module, mc_cfg(consts, fam.invariant, spec=fam.mc_spec, devs=fam.devs),
                                      workers=fam.mc_workers, timeout=3400, extra=["-continue"], heap="12g")
                bad = tlc_failed(out)
                if "UNEXPLAINED" in out or bad or rc != 0:
                    raise Undecided("design check %s failed: the calculus layer no longer refines the abstract "
                                    "layer (spec inconsistency, not a code verdict)\n%s" % (fam.mc_module, out[-3000:]))
                s, t = tlc_stats(out)
                mc_states += s
                mc_trans += t
            cases = work.path("cases-%d.ndjson" % i)
            rc, out, dt = run_tlc(work, fam.mc_module, mc_cfg(consts, fam.gen_invariant, spec=fam.gen_spec, devs=fam.devs),
                                  env={"CASES": cases}, workers=1, timeout=3400, heap="8g")
            if rc != 0 or tlc_failed(out) or not os.path.exists(cases):
                raise Undecided("case generation failed:\n" + out[-3000:])
            if fam.dedupe:
                with open(cases) as fh:
                    uniq = sorted(set(fh.readlines()))
                with open(cases, "w") as fh:
                    fh.writelines(uniq)
            if not rnd.get("mc", True):
                s, t = tlc_stats(out)
                mc_states += s
                mc_trans += t
            n, events, verdicts, drift, tstates = replay_cases(work, harness, fam, cases, "r%d" % i, extra_args=extra)
            for v in verdicts:
                v["_file"] = cases   # case ids need only be unique within a round
            mc_states += tstates
            mc_trans += tstates
            total_cases += n
            total_events += events
            total_drift += drift
            all_verdicts += verdicts
            case_files.append(cases)
            bounds.append(dict(consts=consts, cases=n, events=events, design_checked=rnd.get("mc", True)))
            if len(samples) < 3:
                with open(cases) as fh:
                    c = decode_case_line(fh.readline())
                samples.append(shrink(c))
        cov = dict(states=mc_states, transitions=mc_trans, cases=total_cases, events=total_events,
                   drift=total_drift, samples=samples, bounds=bounds, exhaustive=exhaustive)
        return finish(fam, prop, tier, seed, listed, known, work, harness, all_verdicts, cov, t0, case_files, extra)
    finally:
        work.cleanup()


_SINK = None   # when a list: finish() appends (coverage, violations, assumptions) instead of writing evidence


def run_families(fams, prop, tier, seed, replay=None):
    """Several generator/trace pairs deciding clauses of ONE property: run each, merge the evidence."""
    global _SINK
    t0 = time.time()
    if replay:
        with open(replay) as fh:
            first = decode_case_line(fh.readline())
        def matches(fam):
            cf = fam.case_fam
            return cf is not None and (first.get("fam") == cf or (isinstance(cf, (tuple, list)) and first.get("fam") in cf))
        for fam in [f for f in fams if matches(f)] + [f for f in fams if f.case_fam is None]:
            return run_family(fam, prop, tier, seed, replay)
        raise Undecided("replay file belongs to no family of %s" % prop)
    _SINK = []
    try:
        rc = 0
        for fam in fams:
            rc = max(rc, run_family(fam, prop, tier, seed))
        parts = _SINK
    finally:
        _SINK = None
    cov = dict(families=[dict(family=f.name, **c[0]) for f, c in zip(fams, parts)])
    for k in ("states", "transitions", "cases", "events", "drift", "traces_validated_against_impl",
              "verdicts_total", "verdicts_owned"):
        cov[k] = sum(c[0].get(k, 0) for c in parts)
    cov["samples"] = [x for c in parts for x in c[0].get("samples", [])[:2]]
    cov["exhaustive"] = all(c[0].get("exhaustive", False) for c in parts)
    cov["known_findings_met"] = sorted({d for c in parts for d in c[0].get("known_findings_met", [])})
    cov["rule"] = " || ".join("%s: %s" % (f.name, c[0].get("rule", "")) for f, c in zip(fams, parts))
    for c in cov["families"]:
        c.pop("samples", None)
    write_evidence(prop, tier, seed, cov, time.time() - t0, sum(c[1] for c in parts),
                   assumptions=sorted({a for c in parts for a in c[2]}))
    return rc


def shrink(c, maxlist=4):
    """Abbreviate long lists in a sample case so that evidence files stay small."""
    if isinstance(c, dict):
        return {k: shrink(v, maxlist) for k, v in c.items()}
    if isinstance(c, list):
        out = [shrink(x, maxlist) for x in c[:maxlist]]
        if len(c) > maxlist:
            out.append("... (%d more)" % (len(c) - maxlist))
        return out
    return c


def finish(fam, prop, tier, seed, listed, known, work, harness, verdicts, cov, t0, case_files, extra):
    mine = [v for v in verdicts if fam.owns(v)]
    if os.environ.get("VERIF_DUMP_VERDICTS"):
        with open(os.environ["VERIF_DUMP_VERDICTS"], "a") as fh:
            for v in mine:
                fh.write(json.dumps({k: x for k, x in v.items() if k != "_file"}) + "\n")
    devs_met = {}
    viol = {}
    for v in mine:
        if v["calc"].startswith("dev:"):
            d = v["calc"][4:]
            if (prop, d) in listed:
                devs_met.setdefault(d, v)
                continue
        viol.setdefault(fam.case_key(v), []).append(v)

    confirmed = []
    for cid in sorted(viol)[:5]:
        own = [v["_file"] for v in viol[cid] if "_file" in v][:1]
        c = find_case(own + [f for f in case_files if f not in own], cid)
        if c is None:
            continue
        one = work.path("repro.ndjson")
        with open(one, "w") as fh:
            fh.write(json.dumps(c) + "\n")
        n, events, vs, drift, _ = replay_cases(work, harness, fam, one, "repro", shards=1, extra_args=extra)
        again = [v for v in vs if fam.owns(v)
                 and not (v["calc"].startswith("dev:") and (prop, v["calc"][4:]) in listed)]
        if again:
            path = save_replay(prop, cid, [c])
            confirmed.append((cid, path, again))
    if viol and not confirmed:
        raise Undecided("violations were not reproducible in isolation: %s" % sorted(viol)[:3])

    for d, v in sorted(devs_met.items()):
        what = next((k["what"] for k in known["findings"] if k.get("dev") == d and k["property"] == prop), d)
        print("KNOWN-FINDING: property=%s %s: %s (e.g. case %s: %s)" % (prop, d, what, v["case"], str(v.get("op"))[:80]))
    for cid, path, again in confirmed:
        rules = sorted({"%s/%s/%s" % (str(v["op"])[:60], v["rule"], v["label"]) for v in again})[:6]
        print("VIOLATION property=%s replay=%s" % (prop, path))
        print("  case %s: %s" % (cid, ", ".join(rules)))
    if len(viol) > len(confirmed):
        print("  (%d violating cases in total)" % len(viol))

    if cov is not None:
        coverage = dict(cov)
        coverage["traces_validated_against_impl"] = cov["cases"]
        coverage["known_findings_met"] = sorted(devs_met)
        coverage["verdicts_total"] = len(verdicts)
        coverage["verdicts_owned"] = len(mine)
        coverage["rule"] = fam.rule_text
        if _SINK is not None:
            _SINK.append((coverage, len(confirmed), list(fam.assumptions)))
        else:
            write_evidence(prop, tier, seed, coverage, time.time() - t0, len(confirmed), assumptions=fam.assumptions)
    return 1 if confirmed else 0
