-------------------------------- MODULE Cli --------------------------------
(***************************************************************************)
(* C15: the multi-site edit commands of the gts CLI, specified on the      *)
(* abstract record (residue identities) from the regions a locator         *)
(* resolves to - in INPUT coordinates, all sites at once.                  *)
(*   delete  removes exactly the union of the located regions              *)
(*   insert  one copy of the guest per located region, at its 5' position  *)
(*   split   pieces concatenate to the input (circular: re-origined)       *)
(*   rotate  the first located position becomes index 0                    *)
(*   extract one record per distinct located region shorter than the       *)
(*           record (-v: the maximal unlocated stretches)                  *)
(***************************************************************************)
EXTENDS SeqMachine

R == INSTANCE Region

(***************************************************************************)
(* Locators: [x |-> specifier, m |-> modifier or [k |-> "none"]]           *)
(*   specifier: [k |-> "mod", m] bare modifier (whole sequence resized)     *)
(*              [k |-> "loc", t] a point / range / complement location      *)
(*              [k |-> "sel", key] features with that key, in table order   *)
(*              [k |-> "all"]     every feature ("@M")                      *)
(***************************************************************************)
RECURSIVE CompR(_)
CompR(r) == IF r.k = "seg" THEN R!Seg(r.t, r.h)
            ELSE R!Regs([j \in 1..Len(r.xs) |-> CompR(r.xs[Len(r.xs) + 1 - j])])

RECURSIVE RegionOf(_)
RegionOf(t) ==
  CASE t.k = "pt" -> R!Seg(t.p, t.p + 1)
    [] t.k = "bw" -> R!Seg(t.p, t.p)
    [] t.k \in {"rg", "am"} -> R!Seg(t.s, t.e)
    [] t.k \in {"jn", "od"} -> R!Regs([j \in 1..Len(t.xs) |-> RegionOf(t.xs[j])])
    [] t.k = "cp" -> CompR(RegionOf(t.x))
    [] OTHER -> R!Seg(0, 0)
PrintSpec(x) ==
  CASE x.k = "mod" -> R!PrintMod(x.m)
    [] x.k = "loc" -> PrintLoc(x.t)
    [] x.k = "sel" -> x.key
    [] x.k = "all" -> ""
PrintLocator(lc) == PrintSpec(lc.x) \o (IF lc.m.k = "none" THEN "" ELSE "@" \o R!PrintMod(lc.m))

Located(lc, raw) ==
  LET L == Len(raw.res)
      base == CASE lc.x.k = "mod" -> <<R!ResizeC(R!Seg(0, L), lc.x.m)>>
                [] lc.x.k = "loc" -> <<RegionOf(lc.x.t)>>
                [] lc.x.k = "sel" -> LET fs == SelectSeq(raw.feats, LAMBDA f : f.key = lc.x.key)
                                     IN [j \in 1..Len(fs) |-> RegionOf(fs[j].loc)]
                [] lc.x.k = "all" -> [j \in 1..Len(raw.feats) |-> RegionOf(raw.feats[j].loc)]
  IN IF lc.m.k = "none" THEN base ELSE [j \in 1..Len(base) |-> R!ResizeC(base[j], lc.m)]

(***************************************************************************)
(* The locator clause of C08, stated on denotations: the regions returned  *)
(* for 'X@M' are, in order, the regions of X, each denoting the slice      *)
(* [lo,hi) of its spliced coordinate that M selects (Region!ResizeDen);    *)
(* a region without a direction (zero length first/last segment) is only   *)
(* required to be returned, not to be resized in a particular way.         *)
(***************************************************************************)
BaseRegions(lc, raw) ==
  CASE lc.x.k = "mod" -> <<R!Seg(0, Len(raw.res))>>
    [] lc.x.k = "loc" -> <<RegionOf(lc.x.t)>>
    [] lc.x.k = "sel" -> LET fs == SelectSeq(raw.feats, LAMBDA f : f.key = lc.x.key)
                         IN [j \in 1..Len(fs) |-> RegionOf(fs[j].loc)]
    [] lc.x.k = "all" -> [j \in 1..Len(raw.feats) |-> RegionOf(raw.feats[j].loc)]
WellRegion(r) == r.k \in {"seg", "regs"} /\ (r.k = "seg" \/ \A j \in 1..Len(r.xs) : r.xs[j].k \in {"seg", "regs"})
LocatorVerdicts(lc, raw, got) ==
  LET base == BaseRegions(lc, raw)
      mods == (IF lc.x.k = "mod" THEN <<lc.x.m>> ELSE <<>>) \o (IF lc.m.k = "none" THEN <<>> ELSE <<lc.m>>)
      one(j) ==
        LET b == base[j]  g == got[j] IN
        IF ~WellRegion(g) THEN {"locator-shape"}
        ELSE IF mods = <<>> THEN (IF R!Splice(g) # R!Splice(b) \/ (R!RLen(b) = 0 /\ R!Segs(g) # R!Segs(b)) THEN {"locator-region"} ELSE {})
        ELSE IF Len(mods) = 1 THEN (IF ~R!Directed(b) THEN {} ELSE IF R!Splice(g) # R!ResizeDen(b, mods[1]) THEN {"locator-resized"} ELSE {})
        ELSE LET mid == R!ResizeC(b, mods[1]) IN
             IF ~R!Directed(b) \/ ~R!Directed(mid) THEN {}
             ELSE IF R!Splice(g) # R!ResizeDen(mid, mods[2]) THEN {"locator-resized"} ELSE {}
  IN IF Len(got) # Len(base) THEN {"locator-count"}
     ELSE UNION {one(j) : j \in 1..Len(base)}

HeadOf(r) == IF r.k = "seg" THEN r.h ELSE (IF r.xs = <<>> THEN 0 ELSE R!Segs(r)[1].h)
CoveredPos(rs) == UNION {R!Covered(rs[j]) : j \in 1..Len(rs)}
InRange(rs, L) == \A j \in 1..Len(rs) : \A q \in 1..Len(R!Segs(rs[j])) :
                    R!Segs(rs[j])[q].h >= 0 /\ R!Segs(rs[j])[q].h <= L /\ R!Segs(rs[j])[q].t >= 0 /\ R!Segs(rs[j])[q].t <= L

(***************************************************************************)
(* Judgements.  S: abstract input record, Os: abstract output records.     *)
(***************************************************************************)
\* residues and features after removing the identities at positions P
JudgeCmdDelete(S, O, P, erase) ==
  LET removed == {S.ids[p + 1] : p \in P}
      ids2 == SelectSeq(S.ids, LAMBDA x : x \notin removed)
      byt2 == [j \in 1..Len(ids2) |-> S.byt[PosOf(S, ids2[j])]]
      surv == SeqToSet(ids2)
      mayDrop(f) == erase /\ f.key # "source" /\ (FDen(f) = <<>> \/ FIds(f) \cap surv = {})
      \* -e drops a feature that lies inside ONE deleted stretch; a feature whose
      \* parts fall into several stretches may be dropped or collapse to sites
      runs == R!Runs(P, Len(S.ids))
      inOneRun(f) == \E j \in 1..Len(runs) : \A x \in FIds(f) : (PosOf(S, x) - 1) \in runs[j].h..(runs[j].t - 1)
      mustDrop(f) == erase /\ f.key # "source" /\ FDen(f) # <<>> /\ FIds(f) \cap surv = {} /\ f.gaps = {} /\ inOneRun(f)
      rule(f) ==
        LET n1 == Len(FeatsWith(O, f.label)) IN
        IF mustDrop(f) THEN If(n1 # 0, V("dropped", f.label))
        ELSE IF mayDrop(f) /\ n1 = 0 THEN {}
        ELSE IF n1 # 1 THEN V("once", f.label)
        ELSE RemovedRule(f, The(O, f.label), S.ids, ids2, surv, -1, FALSE)
  IN ResRule(O, ids2, byt2) \cup AllWFx(O, Ill(S))
     \cup UNION {IF S.feats[j].wf THEN rule(S.feats[j]) ELSE {} : j \in 1..Len(S.feats)}

\* guest copies (fresh identities gids[c]) inserted at the boundaries sites[c]
\* (input coordinates, one per located region)
JudgeCmdInsert(S, O, sites, gbytes, embed) ==
  LET L == Len(S.ids)
      n == Len(gbytes)
      \* expected bytes: before boundary b come the copies whose site is b
      copiesAt(b) == Cardinality({c \in 1..Len(sites) : sites[c] = b})
      RECURSIVE Build(_)
      Build(b) == IF b > L THEN <<>>
                  ELSE FlatSeq([c \in 1..copiesAt(b) |-> gbytes]) \o (IF b < L THEN <<S.byt[b + 1]>> ELSE <<>>) \o Build(b + 1)
      byt2 == Build(0)
      \* positions of host residues in the output
      hostPos(p) == p + n * Cardinality({c \in 1..Len(sites) : sites[c] <= p})    \* 0-based input position p
      hostIds == SeqToSet(S.ids)
      rule(f) ==
        LET os == FeatsWith(O, f.label) IN
        IF Len(os) # 1 THEN V("once", f.label)
        ELSE LET o == os[1]
                 hd == SelectSeq(FDen(o), LAMBDA x : x[1] \in hostIds)
             IN SameMeta(f, o)
                \cup If(hd # FDen(f), V("den", f.label))
                \cup If(~embed /\ Len(hd) # Len(FDen(o)), V("den-guest", f.label))
                \cup If(FDen(f) # <<>> /\ (o.f5 # f.f5 \/ o.f3 # f.f3), V("flag", f.label))
  IN If(O.byt # byt2, V("res", "-"))
     \cup AllWFx(O, Ill(S))
     \cup UNION {IF S.feats[j].wf THEN rule(S.feats[j]) ELSE {} : j \in 1..Len(S.feats)}

\* identities of the output of an insert: host identities at their new places, guest positions fresh (0 - position)
InsertIds(S, sites, n) ==
  LET L == Len(S.ids)
      total == L + n * Len(sites)
      hostAt(q) == \* input position whose output position is q (0-based), or -1
        LET cands == {p \in 0..(L - 1) : p + n * Cardinality({c \in 1..Len(sites) : sites[c] <= p}) = q}
        IN IF cands = {} THEN -1 ELSE CHOOSE p \in cands : TRUE
  IN [q \in 1..total |-> IF hostAt(q - 1) >= 0 THEN S.ids[hostAt(q - 1) + 1] ELSE 0 - q]

\* pieces of a split: residues concatenate to the input (re-origined if circular);
\* the pieces of every feature together denote its residues, each once, on its strand
JudgeCmdSplit(S, Os, circular) ==
  LET all == FlatSeq([j \in 1..Len(Os) |-> Os[j].ids])
      allb == FlatSeq([j \in 1..Len(Os) |-> Os[j].byt])
      okRes == IF circular THEN IsCyclicShift(S.byt, allb) ELSE allb = S.byt
      featRule(f) ==
        LET ps == FlatSeq([j \in 1..Len(Os) |-> FeatsWith(Os[j], f.label)])
            dens == FlatSeq([q \in 1..Len(ps) |-> FDen(ps[q])])
        IN If(FDen(f) # <<>> /\ (SeqToSet(dens) # FSet(f) \/ Len(dens) # Len(FDen(f))), V("pieces", f.label))
  IN If(~okRes, V("res", "-"))
     \cup UNION {AllWFx(Os[j], Ill(S)) : j \in 1..Len(Os)}
     \cup UNION {If(Os[j].topo \notin {"linear", "na"}, V("topo", "-")) : j \in 1..Len(Os)}
     \cup UNION {IF S.feats[j].wf THEN featRule(S.feats[j]) ELSE {} : j \in 1..Len(S.feats)}

\* bytes extracted for a region, from the input record
RegionBytes(S, r) ==
  LET d == R!Splice(r)
  IN [q \in 1..Len(d) |-> IF d[q][2] = 1 THEN S.byt[d[q][1] + 1] ELSE CompOf(S.byt[d[q][1] + 1])]

\* distinct regions in order
RECURSIVE Distinct(_, _)
Distinct(rs, seen) ==
  IF rs = <<>> THEN <<>>
  ELSE IF Head(rs) \in seen THEN Distinct(Tail(rs), seen) ELSE <<Head(rs)>> \o Distinct(Tail(rs), seen \cup {Head(rs)})

ExtractRegions(rs, L, invert) ==
  LET ds == Distinct(rs, {})
      chosen == IF invert THEN R!Runs((0..(L - 1)) \ CoveredPos(ds), L) ELSE ds
  IN IF Len(chosen) = 1 THEN chosen ELSE SelectSeq(chosen, LAMBDA r : R!RLen(r) # L)

JudgeCmdExtract(S, outsBytes, rs, invert) ==
  LET want == ExtractRegions(rs, Len(S.ids), invert)
      \* whether a zero-length site splits an unlocated stretch is not specified
      zero == \E j \in 1..Len(rs) : \E q \in 1..Len(R!Segs(rs[j])) : R!SegLen(R!Segs(rs[j])[q]) = 0
  IN IF invert /\ zero THEN {} ELSE
     If(Len(outsBytes) # Len(want), V("extract-count", "-"))
     \cup UNION {If(j <= Len(outsBytes) /\ outsBytes[j] # RegionBytes(S, want[j]), V("extract-res", ToString(j))) : j \in 1..Len(want)}

=============================================================================
