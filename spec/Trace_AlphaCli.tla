--------------------------- MODULE Trace_AlphaCli ---------------------------
(* Trace validation for the command-line clause of C18: each event is one    *)
(* run of `gts search [-e] [--no-complement] @query` on a one-record GenBank *)
(* file; the features it adds are the occurrences (exact: all, overlapping;  *)
(* pattern: leftmost non-overlapping) on the forward strand and, unless      *)
(* --no-complement, on the reverse strand (as complement locations).         *)
EXTENDS Alphabet, Json, IOUtils, SequencesExt

Trace == ndJsonDeserialize(IOEnv.TRACE)
N == Len(Trace)
VARIABLES l, verdicts
vars == <<l, verdicts>>
TInit == l = 1 /\ verdicts = {}

RevComp(s) == [j \in 1..Len(s) |-> CompDerived(s[Len(s) + 1 - j])]
Hits(s, q, exact) == IF exact THEN SearchAll(s, q) ELSE MatchScan(s, q)
\* expected features as <<start, end, strand>> (0-based, half open; strand 1 forward, -1 complement)
Expected(e) ==
  LET L == Len(e.s)
      fw == Hits(e.s, e.q, e.exact)
      rv == IF e.nocomp THEN <<>> ELSE Hits(RevComp(e.s), e.q, e.exact)
  IN {<<fw[j][1], fw[j][2], 1>> : j \in 1..Len(fw)} \cup {<<L - rv[j][2], L - rv[j][1], -1>> : j \in 1..Len(rv)}
Got(e) == {<<e.hits[j].h, e.hits[j].t, e.hits[j].strand>> : j \in 1..Len(e.hits)}
\* multiplicity: the same segment may be reported once per strand only
EvSearch ==
  /\ Trace[l].ev = "clisearch"
  /\ LET e == Trace[l]
         vs == IF e.status # 0 \/ e.parseerr # "" THEN {"search-failed"}
               ELSE (IF Got(e) # Expected(e) THEN {"search-features"} ELSE {})
                    \cup (IF Len(e.hits) # Cardinality(Expected(e)) THEN {"search-duplicates"} ELSE {})
                    \cup (IF e.res # e.s THEN {"search-residues"} ELSE {})
     IN verdicts' = verdicts \cup {<<l, e.case, e.cmdline, v, "-">> : v \in vs}
Consume == l <= N /\ EvSearch /\ l' = l + 1
Finish ==
  /\ l = N + 1
  /\ LET vseq == SetToSeq(verdicts) IN
     ndJsonSerialize(IOEnv.VERDICTS,
        <<[consumed |-> l - 1, ops |-> l - 1, nverdicts |-> Cardinality(verdicts)]>>
        \o [j \in 1..Len(vseq) |-> [line |-> vseq[j][1], case |-> vseq[j][2], op |-> vseq[j][3],
                                     rule |-> vseq[j][4], label |-> vseq[j][5], calc |-> "-"]])
  /\ l' = l + 1 /\ UNCHANGED verdicts
TNext == Consume \/ Finish
TSpec == TInit /\ [][TNext]_vars
TraceAccepted == TLCGet("stats").diameter = N + 2
=============================================================================
