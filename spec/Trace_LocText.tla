--------------------------- MODULE Trace_LocText ---------------------------
(* Trace validation for C06: every logged term / string event is judged by  *)
(* LocText; verdicts accumulate, tagged with the deviation that explains    *)
(* them (if any) and with "drift" when only the calculus layer disagrees.   *)
EXTENDS LocText, Json, IOUtils, SequencesExt

Trace == ndJsonDeserialize(IOEnv.TRACE)
N == Len(Trace)
VARIABLES l, verdicts, ndrift
vars == <<l, verdicts, ndrift>>

TInit == l = 1 /\ verdicts = {} /\ ndrift = 0

Tag(e, what, vs, tagOf(_)) == {<<l, e.case, what, v, tagOf(v)>> : v \in vs}

EvTerm ==
  /\ Trace[l].ev = "term"
  /\ LET e == Trace[l] IN
     IF e.panic # ""
     THEN verdicts' = verdicts \cup {<<l, e.case, PrintLoc(e.raw), "panic", "-">>} /\ UNCHANGED ndrift
     ELSE LET vs == JudgeTerm(e.raw, e.built, e.s, e.ok, e.v2, e.s2, e.rebuilt)
                    \* the parse must not depend on where the reader's buffer happens to end
                    \cup (IF \E j \in 1..Len(e.splits) : e.splits[j] # (IF e.ok THEN e.s2 ELSE "!") THEN {"parse-split"} ELSE {})
              tagOf(v) == LET ds == ExplainsTerm(e.raw, e.built, v) IN
                          IF ds = {} THEN (IF e.built = Built(e.raw) THEN "same" ELSE "diff") ELSE "dev:" \o (CHOOSE d \in ds : TRUE)
          IN /\ verdicts' = verdicts \cup Tag(e, PrintLoc(e.raw), vs, tagOf)
             /\ ndrift' = ndrift + (IF e.built = Built(e.raw) THEN 0 ELSE 1)

EvStr ==
  /\ Trace[l].ev = "str"
  /\ LET e == Trace[l] IN
     IF e.panic # ""
     THEN verdicts' = verdicts \cup {<<l, e.case, e.in, "panic", "-">>}
     ELSE verdicts' = verdicts \cup Tag(e, e.in, JudgeStr(e.ok, e.v, e.s1, e.ok1, e.v1, e.s2)
                                      \cup (IF \E j \in 1..Len(e.splits) : e.splits[j] # (IF e.ok THEN e.s1 ELSE "!") THEN {"parse-split"} ELSE {}),
                                      LAMBDA v : "-")
  /\ UNCHANGED ndrift

Consume == l <= N /\ (EvTerm \/ EvStr) /\ l' = l + 1

Finish ==
  /\ l = N + 1
  /\ LET vseq == SetToSeq(verdicts) IN
     ndJsonSerialize(IOEnv.VERDICTS,
        <<[consumed |-> l - 1, ops |-> l - 1, nverdicts |-> Cardinality(verdicts), drift |-> ndrift]>>
        \o [j \in 1..Len(vseq) |-> [line |-> vseq[j][1], case |-> vseq[j][2], op |-> vseq[j][3],
                                     rule |-> vseq[j][4], label |-> "-", calc |-> vseq[j][5]]])
  /\ l' = l + 1 /\ UNCHANGED <<verdicts, ndrift>>

TNext == Consume \/ Finish
TSpec == TInit /\ [][TNext]_vars
TraceAccepted == TLCGet("stats").diameter = N + 2
=============================================================================
