SPECIFICATION TSpec
CONSTANT Devs = {"RgPt", "BwRev", "BwOrigin", "WrapSlice", "RepairCp", "RepairJn"}
POSTCONDITION TraceAccepted
CHECK_DEADLOCK FALSE
