--------------------------- MODULE Trace_CacheDir ---------------------------
(* Trace validation for CacheDir.tla.  The harness runs the gts binary for   *)
(* every operation of a history over a fresh cache directory and logs, after *)
(* each, the file names found on disk, and for list / path what was printed. *)
(* The model directory is advanced by the same operation (CacheDir!Apply);   *)
(* name[k] (the entry name of key k) and ref[k] (what k prints) are learned  *)
(* at k's first store / first run and must never change afterwards.          *)
EXTENDS Integers, Sequences, FiniteSets, TLC, Json, IOUtils, SequencesExt

Trace == ndJsonDeserialize(IOEnv.TRACE)
N == Len(Trace)
VARIABLES l, dir, name, ref, verdicts, nops
tvars == <<l, dir, name, ref, verdicts, nops>>
TInit == l = 1 /\ dir = {} /\ name = << >> /\ ref = << >> /\ verdicts = {} /\ nops = 0

Apply(d, o) ==
  CASE o.op = "run" -> d \cup {o.k}
    [] o.op = "runfile" -> IF o.k \in d THEN d \ {o.k} ELSE d \cup {o.k}
    [] o.op = "purge" -> {}
    [] OTHER -> d
Put(f, k, v) == [x \in (DOMAIN f) \cup {k} |-> IF x = k THEN v ELSE f[x]]
SeqRange(s) == {s[i] : i \in 1..Len(s)}

EvCase == Trace[l].ev = "case" /\ dir' = {} /\ UNCHANGED <<name, ref, verdicts, nops>>
EvOp ==
  /\ Trace[l].ev = "cdop"
  /\ LET e == Trace[l]
         o == e.o
         d2 == Apply(dir, o)
         files == SeqRange(e.files)
         stored == o.op \in {"run", "runfile"} /\ o.k \in d2 /\ o.k \notin dir
         new == files \ {name[k] : k \in (dir \cap DOMAIN name)}
         name2 == IF stored /\ o.k \notin DOMAIN name /\ Cardinality(new) = 1 THEN Put(name, o.k, CHOOSE f \in new : TRUE) ELSE name
         isrun == o.op \in {"run", "runfile"}
         ref2 == IF isrun /\ o.k \notin DOMAIN ref THEN Put(ref, o.k, e.out) ELSE ref
         want == {name2[k] : k \in (d2 \cap DOMAIN name2)}
         bad == (IF e.status # 0 THEN {"status"} ELSE {})
                \cup (IF Cardinality(files) # Cardinality(d2) THEN {"dir-count"} ELSE {})
                \cup (IF Cardinality(files) = Cardinality(d2) /\ files # want THEN {"dir-content-or-name-unstable"} ELSE {})
                \cup (IF Cardinality({name2[k] : k \in DOMAIN name2}) # Cardinality(DOMAIN name2) THEN {"name-not-injective"} ELSE {})
                \cup (IF isrun /\ ref2[o.k] # e.out THEN {"output-unstable"} ELSE {})
                \cup (IF o.op = "list" /\ SeqRange(e.listed) # files THEN {"list-names"} ELSE {})
                \cup (IF o.op = "list" /\ Len(e.listed) # Cardinality(files) THEN {"list-duplicates"} ELSE {})
                \cup (IF o.op = "list" /\ e.sizesok = FALSE THEN {"list-sizes"} ELSE {})
                \cup (IF o.op = "list" /\ e.total # e.wanttotal THEN {"list-total"} ELSE {})
                \cup (IF o.op = "path" /\ e.pathok = FALSE THEN {"path"} ELSE {})
                \cup (IF o.op = "purge" /\ e.out # "" THEN {"purge-prints"} ELSE {})
     IN /\ dir' = d2 /\ name' = name2 /\ ref' = ref2
        /\ verdicts' = verdicts \cup {<<l, e.case, o.op \o " " \o ToString(o.k), v, "-">> : v \in bad}
  /\ nops' = nops + 1
Consume == l <= N /\ (EvCase \/ EvOp) /\ l' = l + 1
Finish ==
  /\ l = N + 1
  /\ LET vseq == SetToSeq(verdicts) IN
     ndJsonSerialize(IOEnv.VERDICTS,
        <<[consumed |-> l - 1, ops |-> nops, nverdicts |-> Cardinality(verdicts)]>>
        \o [j \in 1..Len(vseq) |-> [line |-> vseq[j][1], case |-> vseq[j][2], op |-> vseq[j][3],
                                     rule |-> vseq[j][4], label |-> vseq[j][5], calc |-> "-"]])
  /\ l' = l + 1 /\ UNCHANGED <<dir, name, ref, verdicts, nops>>
TNext == Consume \/ Finish
TSpec == TInit /\ [][TNext]_tvars
TraceAccepted == TLCGet("stats").diameter = N + 2
=============================================================================
