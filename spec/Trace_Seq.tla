----------------------------- MODULE Trace_Seq -----------------------------
(***************************************************************************)
(* Trace validation of the real library against the Seq workspace machine.*)
(* The trace (ndjson, env TRACE) was recorded by harness/seq.go while it   *)
(* replayed TLC-generated behaviours (or corpus pipelines).  Every line is *)
(* consumed by exactly one action; the abstract workspace is advanced by   *)
(* the specification and the logged raw state is projected and judged.     *)
(* A mismatch does not block: it is recorded in `verdicts` and the         *)
(* abstract record is re-synchronised to the observation, so the rest of   *)
(* the trace is still examined.  When the abstract layer rejects a step,   *)
(* the calculus layer's prediction is compared too (`calc` field): a       *)
(* mismatch that the transcribed rule reproduces exactly is how a KNOWN    *)
(* deviation is told from a new one.                                       *)
(***************************************************************************)
EXTENDS SeqMachine, Json, IOUtils, SequencesExt

Trace == ndJsonDeserialize(IOEnv.TRACE)
N == Len(Trace)

VARIABLES l, ws, verdicts, nops
vars == <<l, ws, verdicts, nops>>

\* verdict: <<line, case, op, rule, label, calc>>; calc = "same" when the
\* calculus layer predicts exactly the observed result, "diff" otherwise
Tag(e, vs, calc) == {<<l, e.case, (IF e.ev = "op" THEN e.op ELSE e.ev), v[1], v[2], calc>> : v \in vs}

TInit == l = 1 /\ ws = EmptyWS /\ verdicts = {} /\ nops = 0

EvCase ==
  /\ Trace[l].ev = "case"
  /\ ws' = EmptyWS
  /\ UNCHANGED <<verdicts, nops>>

EvInit ==
  /\ Trace[l].ev = "init"
  /\ LET e == Trace[l]
         w2 == StepInit(ws, e.name, e.st, e.withext)
     IN /\ ws' = [w2 EXCEPT !.vs = {}]
        /\ verdicts' = verdicts \cup Tag(e, w2.vs, "-")
  /\ UNCHANGED nops

EvOp ==
  /\ Trace[l].ev = "op"
  /\ LET e == Trace[l]
         w2 == StepOp(ws, e, e.withext)
         calc == IF w2.vs = {} \/ e.panic # "" THEN "-"
                 ELSE IF SameObs(CalcOp(ws.recs, e), e.st) THEN "same" ELSE "diff"
         \* each verdict is tagged with the known deviations that explain it
         tagged == UNION {Tag(e, {v}, LET ds == Explains(ws, e, v) IN
                                      IF ds = {} THEN calc ELSE "dev:" \o (CHOOSE d \in ds : TRUE)) : v \in w2.vs}
     IN /\ ws' = [w2 EXCEPT !.vs = {}]
        /\ ("DEBUGLINE" \in DOMAIN IOEnv /\ ToString(l) = IOEnv.DEBUGLINE) =>
              PrintT(<<"DEBUG", l, [j \in 1..Len(CalcOp(ws.recs, e).feats) |->
                         <<CalcOp(ws.recs, e).feats[j].label, PrintLoc(CalcOp(ws.recs, e).feats[j].loc)>>],
                       [j \in 1..Len(e.st.feats) |-> <<e.st.feats[j].label, PrintLoc(e.st.feats[j].loc)>>]>>)
        /\ verdicts' = verdicts \cup tagged
  /\ nops' = nops + 1

\* purity probe (C11): an argument re-read through its accessors
EvProbe ==
  /\ Trace[l].ev = "probe"
  /\ LET e == Trace[l] IN
     verdicts' = verdicts \cup Tag(e,
        IF ~HasRec(ws, e.name) THEN {}
        ELSE IF e.panic # "" THEN V("probe-panic", e.name)
        ELSE If(~SameObs(e.st, ws.recs[e.name].raw), V("mutated", e.name)), "-")
  /\ UNCHANGED <<ws, nops>>

EvLaw ==
  /\ Trace[l].ev = "law"
  /\ verdicts' = verdicts \cup UNION {Tag(Trace[l], {v}, LET ds == ExplainsLaw(ws, Trace[l], v) IN
                                         IF ds = {} THEN "-" ELSE "dev:" \o (CHOOSE d \in ds : TRUE))
                                      : v \in StepLaw(ws, Trace[l])}
  /\ UNCHANGED <<ws, nops>>

\* GenBank write-read-write of a workspace record (C01 reachability)
EvRt ==
  /\ Trace[l].ev = "rt"
  /\ LET e == Trace[l] IN
     verdicts' = verdicts \cup Tag(e,
        If(e.wpanic # "", V("rt-write-panic", "-"))
        \cup If(e.rpanic # "", V("rt-read-panic", "-"))
        \cup If(e.wpanic = "" /\ e.rpanic = "" /\ (e.rerr # "" \/ e.nread # 1), V("rt-rejected", "-"))
        \cup If(e.nread = 1 /\ e.rerr = "" /\ ~e.fixed, V("rt-notfixed", "-"))
        \cup If(e.nread = 1 /\ e.rerr = "" /\ HasRec(ws, e.src) /\ ~SameObs(e.st, ws.recs[e.src].raw), V("rt-differs", "-")), "-")
  /\ UNCHANGED <<ws, nops>>

EvSkip ==
  /\ Trace[l].ev = "skip"
  /\ UNCHANGED <<ws, verdicts, nops>>

Consume ==
  /\ l <= N
  /\ (EvCase \/ EvInit \/ EvOp \/ EvProbe \/ EvLaw \/ EvRt \/ EvSkip)
  /\ l' = l + 1

VerdictRec(v) == [line |-> v[1], case |-> v[2], op |-> v[3], rule |-> v[4], label |-> v[5], calc |-> v[6]]

Finish ==
  /\ l = N + 1
  /\ LET vseq == SetToSeq(verdicts) IN
     ndJsonSerialize(IOEnv.VERDICTS,
        <<[consumed |-> l - 1, ops |-> nops, nverdicts |-> Cardinality(verdicts)]>>
        \o [j \in 1..Len(vseq) |-> VerdictRec(vseq[j])])
  /\ l' = l + 1
  /\ UNCHANGED <<ws, verdicts, nops>>

TNext == Consume \/ Finish
TSpec == TInit /\ [][TNext]_vars

\* every line was consumed and the verdict file was written
TraceAccepted == TLCGet("stats").diameter = N + 2
=============================================================================
