SPECIFICATION TSpec
CONSTANT Devs = {"QuoteInValue", "TrailingBackslash", "OrganismWrap"}
POSTCONDITION TraceAccepted
CHECK_DEADLOCK FALSE
