---------------------------- MODULE Trace_Alpha ----------------------------
(* Trace validation for C18: complement / transcribe of every byte, the    *)
(* Match matrix, Search and Match on small sequences, judged by Alphabet.   *)
EXTENDS Alphabet, Json, IOUtils, SequencesExt
CONSTANT Devs   \* "MatchK": the class of query letter k is [gtuy] (pinned by TestMatch)

Trace == ndJsonDeserialize(IOEnv.TRACE)
N == Len(Trace)
VARIABLES l, verdicts
vars == <<l, verdicts>>
TInit == l = 1 /\ verdicts = {}
If(c, vs) == IF c THEN vs ELSE {}
Tag(e, what, vs, calc) == {<<l, e.case, what, v, calc>> : v \in vs}

HasK(q) == \E j \in 1..Len(q) : Up(q[j]) = 75
\* the scan with the code's character classes
RECURSIVE ScanC(_, _, _)
ScanC(seq, i, query) ==
  IF i + Len(query) > Len(seq) THEN <<>>
  ELSE IF \A j \in 1..Len(query) : LetterMatchC(query[j], seq[i + j])
       THEN << <<i, i + Len(query)>> >> \o ScanC(seq, i + Len(query), query)
       ELSE ScanC(seq, i + 1, query)

EvByte ==
  /\ Trace[l].ev = "byte"
  /\ LET e == Trace[l] IN
     verdicts' = verdicts \cup Tag(e, ToString(e.c),
        If(e.comp # <<CompDerived(e.c), CompDerived(e.c)>>, {"complement"})
        \cup If(e.trans # <<TransDerived(e.c), TransDerived(e.c)>>, {"transcribe"}), "-")

EvPair ==
  /\ Trace[l].ev = "pair"
  /\ LET e == Trace[l]
         \* a sequence byte outside the alphabet has no base set: no query LETTER may match it - except N,
         \* which the code reads as "any residue" (whether N should match a non-letter is not specified)
         judged == IsLetter(e.s) \/ ~IsLetter(e.q) \/ Up(e.q) # 78
         vs == IF e.panic # "" THEN {"match-panic"}
               ELSE If(judged /\ e.hit # LetterMatch(e.q, e.s), {"match-table"})
         calc == IF e.panic = "" /\ "MatchK" \in Devs /\ Up(e.q) = 75 /\ e.hit = LetterMatchC(e.q, e.s) THEN "dev:MatchK" ELSE "-"
     IN verdicts' = verdicts \cup Tag(e, ToString(e.q) \o "~" \o ToString(e.s), vs, calc)

EvScan ==
  /\ Trace[l].ev = "scan"
  /\ LET e == Trace[l]
         letters == \A j \in 1..Len(e.s) : IsLetter(e.s[j]) \/ (\A q \in 1..Len(e.q) : ~IsLetter(e.q[q])) \/ (\A q \in 1..Len(e.q) : Up(e.q[q]) # 78)
         vs == (IF e.spanic # "" THEN {"search-panic"} ELSE If(e.search # SearchAll(e.s, e.q), {"search"}))
               \cup (IF e.mpanic # "" THEN {"match-panic"} ELSE If(letters /\ e.match # MatchScan(e.s, e.q), {"match-scan"}))
         calc == IF e.mpanic = "" /\ e.spanic = "" /\ e.search = SearchAll(e.s, e.q) /\ "MatchK" \in Devs /\ HasK(e.q)
                    /\ e.match = (IF Len(e.s) = 0 \/ Len(e.q) = 0 THEN <<>> ELSE ScanC(e.s, 0, e.q)) THEN "dev:MatchK" ELSE "-"
     IN verdicts' = verdicts \cup Tag(e, ToString(e.s) \o "/" \o ToString(e.q), vs, calc)

Consume == l <= N /\ (EvByte \/ EvPair \/ EvScan) /\ l' = l + 1
Finish ==
  /\ l = N + 1
  /\ LET vseq == SetToSeq(verdicts) IN
     ndJsonSerialize(IOEnv.VERDICTS,
        <<[consumed |-> l - 1, ops |-> l - 1, nverdicts |-> Cardinality(verdicts)]>>
        \o [j \in 1..Len(vseq) |-> [line |-> vseq[j][1], case |-> vseq[j][2], op |-> vseq[j][3],
                                     rule |-> vseq[j][4], label |-> "-", calc |-> vseq[j][5]]])
  /\ l' = l + 1 /\ UNCHANGED verdicts
TNext == Consume \/ Finish
TSpec == TInit /\ [][TNext]_vars
TraceAccepted == TLCGet("stats").diameter = N + 2
=============================================================================
