-------------------------------- MODULE Parse --------------------------------
(***************************************************************************)
(* C07: the parsers are total.                                             *)
(*                                                                         *)
(* A sequence file is an abstract LINE LIST; every line has a kind (LOCUS, *)
(* field, continuation, DBLINK, feature key, qualifier, ORIGIN data, END). *)
(* Structure-aware mutations are actions on that list:                     *)
(*   DeleteLine  DupLine  SwapLines  Replace(line, variant)  ToCRLF        *)
(*   AppendRecord, and the byte-level TruncateIn(line) / FlipIn(line),     *)
(*   which the harness expands to every byte offset of that line.          *)
(* Each action updates what the specification knows about the text:        *)
(*   declared  the length declared in the LOCUS line                       *)
(*   residues  the residues present in the ORIGIN block                    *)
(*   flags     "indent" (a field shorter than its indent), "dblink" (an    *)
(*             empty DBLINK value), "truncated" (no terminating //),       *)
(*             "widename" (a field name wider than the indent)             *)
(* Outcome of scanning, as logged: "values" | "error" | "panic" | "hang".   *)
(*   Total:       outcome \in {"values", "error"}                          *)
(*   Strict:      an inconsistent text (declared # residues, or one of the *)
(*                flags) must give "error"                                 *)
(*   NoShortRead: "values" => every returned record has exactly the        *)
(*                residues its LOCUS line declares                         *)
(***************************************************************************)
EXTENDS Integers, Sequences, FiniteSets, TLC

L(kind, text, res) == [kind |-> kind, text |-> text, res |-> res, flag |-> ""]   \* res: residues on the line; flag: set by a variant

Seed1 == <<
  L("LOCUS",   "LOCUS       SEED1                     70 bp    DNA     linear   SYN 29-FEB-2020", 0),
  L("FIELD",   "DEFINITION  a seed record for structure-aware mutation", 0),
  L("CONT",    "            with a second definition line.", 0),
  L("FIELD",   "ACCESSION   SD000001", 0),
  L("FIELD",   "VERSION     SD000001.1", 0),
  L("DBLINK",  "DBLINK      BioProject: PRJNA1", 0),
  L("DBCONT",  "            BioSample: SAMN1", 0),
  L("FIELD",   "KEYWORDS    RefSeq; seed.", 0),
  L("FIELD",   "SOURCE      synthetic construct", 0),
  L("SUB",     "  ORGANISM  synthetic construct", 0),
  L("CONT",    "            other sequences; artificial sequences.", 0),
  L("FIELD",   "REFERENCE   1  (bases 1 to 70)", 0),
  L("SUB",     "  AUTHORS   Seed,A. and Seed,B.", 0),
  L("SUB",     "  TITLE     A title", 0),
  L("SUB",     "  JOURNAL   Unpublished", 0),
  L("SUB",     "   PUBMED   12345", 0),
  L("FIELD",   "COMMENT     a comment", 0),
  L("CONT",    "            on two lines", 0),
  L("FEATURES", "FEATURES             Location/Qualifiers", 0),
  L("FKEY",    "     source          1..70", 0),
  L("FQUAL",   "                     /organism=\"synthetic construct\"", 0),
  L("FKEY",    "     gene            complement(join(5..20,30..>45))", 0),
  L("FQUAL",   "                     /gene=\"seedA\"", 0),
  L("FQUAL",   "                     /note=\"a note that is continued", 0),
  L("FQCONT",  "                     on a second line\"", 0),
  L("FQUAL",   "                     /pseudo", 0),
  L("ORIGIN",  "ORIGIN      ", 0),
  L("ODATA",   "        1 acgtacgtac gtacgtacgt acgtacgtac gtacgtacgt acgtacgtac gtacgtacgt", 60),
  L("ODATA",   "       61 acgtacgtac", 10),
  L("END",     "//", 0) >>

Seed2 == <<   \* CONTIG-only record
  L("LOCUS",   "LOCUS       SEED2                    100 bp    DNA     circular BCT 01-JAN-2000", 0),
  L("FIELD",   "DEFINITION  contig only.", 0),
  L("FIELD",   "ACCESSION   SD000002", 0),
  L("FIELD",   "VERSION     SD000002.1", 0),
  L("FIELD",   "KEYWORDS    .", 0),
  L("FIELD",   "SOURCE      s", 0),
  L("SUB",     "  ORGANISM  s", 0),
  L("CONT",    "            .", 0),
  L("FEATURES", "FEATURES             Location/Qualifiers", 0),
  L("FKEY",    "     source          1..100", 0),
  L("FQUAL",   "                     /mol_type=\"genomic DNA\"", 0),
  L("CONTIG",  "CONTIG      join(U00096.3:1..100)", 0),
  L("END",     "//", 0) >>

SeedF == <<   \* FASTA, two records
  L("FDESC",   ">seq1 first record", 0),
  L("FDATA",   "acgtacgtacgtacgtacgtacgtacgtacgtacgtacgtacgtacgtacgtacgtacgtacgtacgtac", 70),
  L("FDATA",   "acgtacgt", 8),
  L("FDESC",   ">seq2", 0),
  L("FDATA",   "ggcc", 4) >>

\* every seed line carries its original index (id); a replaced line keeps the id of the line it replaces
Ided(seed) == [j \in 1..Len(seed) |-> seed[j] @@ [id |-> j]]
Seeds == [s1 |-> Ided(Seed1), s2 |-> Ided(Seed2), sf |-> Ided(SeedF)]

\* Known finding "LenientLines", pinned to the places where the pinned commit skips a line it cannot
\* place instead of reporting it (Seed1 line ids): a continuation line that starts before the indent
\* (of DEFINITION 3, DBLINK 7, the ORGANISM taxonomy 11, COMMENT 18) and a malformed sub-field line
\* inside REFERENCE (13..16).  NOT lenient - and therefore still reported: the ORGANISM sub-field
\* line itself (10) and every top-level field line.
LenientIds == {3, 7, 11, 13, 14, 15, 16, 18}
\* the ORGANISM sub-field line (10) is checked strictly only where the SOURCE parser reads it, i.e. directly
\* after an intact SOURCE line (9); orphaned (SOURCE deleted or replaced) it is one more unplaceable line
OnlyLenientIndent(ls) ==
  \A j \in 1..Len(ls) : ls[j].flag = "indent" =>
     \/ ls[j].id \in LenientIds
     \/ (ls[j].id = 10 /\ ~(j > 1 /\ ls[j - 1].text = Seed1[9].text))

\* variants a line can be replaced by: <<variant name, new text, residues, flag or "">>
Variants(ln) ==
  CASE ln.kind = "LOCUS" /\ ln.text = Seed1[1].text ->
         { <<"declare-less", "LOCUS       SEED1                     60 bp    DNA     linear   SYN 29-FEB-2020", 0, "declared:60">>,
           <<"declare-less2", "LOCUS       SEED1                      2 bp    DNA     linear   SYN 29-FEB-2020", 0, "declared:2">>,
           <<"declare-more", "LOCUS       SEED1                     71 bp    DNA     linear   SYN 29-FEB-2020", 0, "declared:71">>,
           <<"declare-more2", "LOCUS       SEED1                    130 bp    DNA     linear   SYN 29-FEB-2020", 0, "declared:130">>,
           <<"declare-zero", "LOCUS       SEED1                      0 bp    DNA     linear   SYN 29-FEB-2020", 0, "declared:0">>,
           <<"bad-date", "LOCUS       SEED1                     70 bp    DNA     linear   SYN 31-FEB-2020", 0, "">>,
           <<"bad-molecule", "LOCUS       SEED1                     70 bp    XNA     linear   SYN 29-FEB-2020", 0, "">>,
           <<"short-locus", "LOCUS       SEED1", 0, "">>,
           <<"declare-huge", "LOCUS       SEED1    9223372036854775807 bp    DNA     linear   SYN 29-FEB-2020", 0, "declared:huge">>,
           <<"declare-big", "LOCUS       SEED1             2000000000 bp    DNA     linear   SYN 29-FEB-2020", 0, "declared:huge">> }
    [] ln.kind = "DBLINK" ->
         { <<"dblink-empty", "DBLINK      BioProject:", 0, "dblink">>, <<"dblink-x", "DBLINK      X:", 0, "dblink">>,
           <<"dblink-nocolon", "DBLINK      BioProject PRJNA1", 0, "">> }
    [] ln.kind = "DBCONT" ->
         { <<"dbcont-empty", "            BioSample:", 0, "dblink">>, <<"dbcont-shrunk", "           BioSample: SAMN1", 0, "indent">> }
    [] ln.kind = "FIELD" ->
         { <<"widen-name", "DEFINITIONXXXX widened field name", 0, "widename">>, <<"bare-name", "COMMENT", 0, "">>,
           <<"name-no-pad", "VERSION SD000001.1", 0, "indent">>,
           <<"ref-1000", "REFERENCE   1000 (bases 1 to 70)", 0, "">>, <<"ref-100", "REFERENCE   100  (bases 1 to 70)", 0, "">>,
           <<"ref-noinfo", "REFERENCE   7", 0, "">>, <<"contig-extra", "CONTIG      join(X1:1..70)", 0, "">> }
    [] ln.kind = "CONT" ->
         { <<"cont-shrunk", "           shrunk continuation indent", 0, "indent">>, <<"cont-grown", "             grown continuation indent", 0, "">>,
           <<"cont-empty", "", 0, "">> }
    [] ln.kind = "SUB" ->
         { <<"sub-shifted", "   AUTHORS  Seed,A.", 0, "">>, <<"sub-wide", "  ORGANISMXXXXXX s", 0, "indent">>,
           \* a sub-field whose value starts one column before the indent
           <<"sub-shrunk", "  ORGANISM s", 0, "indent">>, <<"sub-shrunk2", "  AUTHORS Seed,A.", 0, "indent">> }
    [] ln.kind = "FKEY" ->
         { <<"fkey-badloc", "     gene            join(5..", 0, "">>, <<"fkey-shrunk", "    gene            5..20", 0, "">>, <<"fkey-noloc", "     gene", 0, "">>,
           <<"fkey-wide", "     a_very_long_feature_key1..6", 0, "">>, <<"fkey-wide2", "     abcdefghijklmnopq1..6", 0, "">> }
    [] ln.kind = "FQUAL" ->
         { <<"fqual-unterminated", "                     /note=\"never closed", 0, "">>, <<"fqual-shrunk", "                    /gene=\"x\"", 0, "">> }
    [] ln.kind = "ODATA" /\ ln.res = 10 ->
         { <<"odata-short", "       61 acgtacgt", 8, "">>, <<"odata-long", "       61 acgtacgtac gt", 12, "">>,
           <<"odata-badindex", "       51 acgtacgtac", 10, "">>, <<"odata-nospace", "       61acgtacgtac", 0, "">> }
    [] ln.kind = "ODATA" /\ ln.res = 60 ->
         { <<"odata-short", "        1 acgtacgtac gtacgtacgt acgtacgtac gtacgtacgt acgtacgtac gtacgtacg", 59, "">>,
           <<"odata-group", "        1 acgtacgtacg tacgtacgt acgtacgtac gtacgtacgt acgtacgtac gtacgtacgt", 60, "">> }
    [] ln.kind = "CONTIG" ->
         { <<"contig-bad", "CONTIG      join(U00096.3:1..", 0, "contigbad">>, <<"contig-noclose", "CONTIG      join(U00096.3:1..100", 0, "contigbad">>,
           <<"contig-nodots", "CONTIG      join(U00096.3:1.100)", 0, "contigbad">>, <<"contig-noparen", "CONTIG      U00096.3:1..100", 0, "">> }
    [] ln.kind = "FDESC" -> { <<"fdesc-nogt", "seq1 without marker", 0, "">> }
    [] ln.kind = "FDATA" -> { <<"fdata-gt", "acgt>acgt", 9, "">> }
    [] OTHER -> {}

(***************************************************************************)
(* Mutations: [a |-> "delete"|"dup"|"swap"|"replace"|"append", i, v]       *)
(***************************************************************************)
VariantNamed(ln, v) == CHOOSE x \in Variants(ln) : x[1] = v
ApplyMut(ls, m) ==
  CASE m.a = "delete"  -> SubSeq(ls, 1, m.i - 1) \o SubSeq(ls, m.i + 1, Len(ls))
    [] m.a = "dup"     -> SubSeq(ls, 1, m.i) \o SubSeq(ls, m.i, Len(ls))
    [] m.a = "swap"    -> [ls EXCEPT ![m.i] = ls[m.i + 1], ![m.i + 1] = ls[m.i]]
    [] m.a = "replace" -> LET x == VariantNamed(ls[m.i], m.v) IN
                          [ls EXCEPT ![m.i] = [kind |-> ls[m.i].kind, text |-> x[2], res |-> x[3], flag |-> x[4], id |-> ls[m.i].id]]
    [] m.a = "append"  -> ls \o ls
    [] OTHER -> ls
RECURSIVE ApplyAll(_, _)
ApplyAll(ls, ms) == IF ms = <<>> THEN ls ELSE ApplyAll(ApplyMut(ls, Head(ms)), Tail(ms))

(***************************************************************************)
(* What the specification knows about a mutated GenBank line list          *)
(***************************************************************************)
\* residues in the ORIGIN block: the sequence lines that directly follow the
\* (first) ORIGIN line; sequence lines elsewhere are stray lines, not the block
RECURSIVE RunRes(_, _)
RunRes(ls, j) == IF j > Len(ls) \/ ls[j].kind # "ODATA" THEN 0 ELSE ls[j].res + RunRes(ls, j + 1)
\* with several ORIGIN lines (duplicated by a mutation) either block may be "the" block
BlockSizes(ls) ==
  LET os == {j \in 1..Len(ls) : ls[j].kind = "ORIGIN"}
  IN IF os = {} THEN {0} ELSE {RunRes(ls, j + 1) : j \in os}
Flags(ls) == {ls[j].flag : j \in 1..Len(ls)} \ {""}
DeclaredFlag(f) == f \in {"declared:60", "declared:2", "declared:71", "declared:130", "declared:0", "declared:huge"}
DeclaredValue(f) == CASE f = "declared:60" -> 60 [] f = "declared:2" -> 2 [] f = "declared:71" -> 71 [] f = "declared:130" -> 130 [] f = "declared:huge" -> 2000000000 [] OTHER -> 0

\* the three inconsistency classes the property names, for a single-record
\* GenBank text derived from Seed1 (declared 70 unless a LOCUS variant says otherwise):
\*   length    declared length # residues in the ORIGIN block
\*   indent    a field line shorter than its indent / a field name without its padding
\*   dblink    an empty DBLINK value
ContigOnly(ls) == (\E j \in 1..Len(ls) : ls[j].kind = "CONTIG" \/ ls[j].text = "CONTIG      join(X1:1..70)")
                  /\ ~\E j \in 1..Len(ls) : ls[j].kind = "ORIGIN"
Inconsistent(ls, dflt) ==
  LET fs == Flags(ls)
      ds == {f \in fs : DeclaredFlag(f)}
      declared == IF ds = {} THEN dflt ELSE DeclaredValue(CHOOSE f \in ds : TRUE)
      nLocus == Cardinality({j \in 1..Len(ls) : ls[j].kind = "LOCUS"})
      \* a line belongs to a DBLINK field if it is the DBLINK line or one of its continuation lines
      inDb(j) == ls[j].kind = "DBLINK" \/
                 (ls[j].kind = "DBCONT" /\ \E i \in 1..(j - 1) : ls[i].kind = "DBLINK" /\ \A q \in (i + 1)..(j - 1) : ls[q].kind = "DBCONT")
      dblinkBad == \E j \in 1..Len(ls) : ls[j].flag = "dblink" /\ inDb(j)
  IN IF nLocus # 1 THEN {}      \* several or no records: judged on totality only
     \* a record without ORIGIN that carries a CONTIG line describes its
     \* sequence by reference: its declared length is not a residue count
     ELSE (IF declared \notin BlockSizes(ls) /\ ~ContigOnly(ls) THEN {"length"} ELSE {})
          \cup (fs \cap {"indent", "widename"})
          \cup (IF dblinkBad THEN {"dblink"} ELSE {})

=============================================================================
