------------------------------- MODULE PropsOps -------------------------------
(***************************************************************************)
(* gts.Props (props.go): the ordered multimap that holds the qualifiers of *)
(* a feature and the DBLINK entries - beyond the listed properties, but    *)
(* under C01 (qualifier order and values survive a round trip), C19        *)
(* (clauses look at "some value of that qualifier") and C11 (Clone).       *)
(*                                                                         *)
(* Abstract state: a sequence of rows <<key, v1, ..., vn>>.  Two handles,  *)
(* the original p and (after Clone) an independent copy c.                 *)
(*   Set(k, vs)  replace the first row of k by <<k>> \o vs, or append it   *)
(*   Add(k, vs)  append vs to the first row of k, or Set                   *)
(*   Del(k)      remove the first row of k                                 *)
(*   Clone       c becomes a copy of p; later steps on one handle never    *)
(*               show through the other                                    *)
(* Observers (no state change): Index, Has, Keys, Get, Items.              *)
(***************************************************************************)
EXTENDS Integers, Sequences, FiniteSets, TLC



IndexOf(p, k) == IF \E i \in 1..Len(p) : p[i][1] = k THEN (CHOOSE i \in 1..Len(p) : p[i][1] = k /\ \A j \in 1..(i - 1) : p[j][1] # k) - 1 ELSE -1
HasKey(p, k) == IndexOf(p, k) >= 0
KeysOf(p) == [i \in 1..Len(p) |-> p[i][1]]
GetOf(p, k) == IF HasKey(p, k) THEN Tail(p[IndexOf(p, k) + 1]) ELSE <<>>
RECURSIVE Flat(_)
Flat(ss) == IF ss = <<>> THEN <<>> ELSE Head(ss) \o Flat(Tail(ss))
\* Items: for every ROW (in order) the values of the FIRST row with that key
ItemsOf(p) == Flat([i \in 1..Len(p) |-> [j \in 1..Len(GetOf(p, p[i][1])) |-> <<p[i][1], GetOf(p, p[i][1])[j]>>]])

SetOp(p, k, vs) == IF HasKey(p, k) THEN [p EXCEPT ![IndexOf(p, k) + 1] = <<k>> \o vs] ELSE Append(p, <<k>> \o vs)
AddOp(p, k, vs) == IF HasKey(p, k) THEN [p EXCEPT ![IndexOf(p, k) + 1] = @ \o vs] ELSE Append(p, <<k>> \o vs)
DelOp(p, k) == IF HasKey(p, k) THEN LET i == IndexOf(p, k) + 1 IN SubSeq(p, 1, i - 1) \o SubSeq(p, i + 1, Len(p)) ELSE p

\* one logged operation applied to the pair of handles
ApplyOp(st, o) ==
  LET tgt == IF o.h = "c" THEN st.c ELSE st.p
      new == CASE o.op = "set" -> SetOp(tgt, o.k, o.vs)
               [] o.op = "add" -> AddOp(tgt, o.k, o.vs)
               [] o.op = "del" -> DelOp(tgt, o.k)
               [] OTHER -> tgt
  IN IF o.op = "clone" THEN [p |-> st.p, c |-> st.p, cl |-> TRUE]
     ELSE IF o.h = "c" THEN [st EXCEPT !.c = new] ELSE [st EXCEPT !.p = new]
=============================================================================
