SPECIFICATION Spec
CONSTANTS
  Mode = "strings"
  L = 4
  Batch = 500
  Stride = 1
  Offset = 0
  MaxTok = 4
  Devs = {"RgPt", "BwRev", "BwOrigin", "WrapSlice"}

CHECK_DEADLOCK FALSE
