SPECIFICATION Spec
CONSTANTS
  Ls = {4}
  Family = "edit"
  Chunk = 40
  Stride = 1
  Offset = 0
  MaxGuest = 2
  Devs = {"RgPt", "BwRev", "BwOrigin", "WrapSlice"}

CHECK_DEADLOCK FALSE
