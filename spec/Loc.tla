------------------------------- MODULE Loc -------------------------------
(***************************************************************************)
(* Abstract vocabulary shared by every gts specification module.          *)
(*                                                                         *)
(* Location terms mirror the Go types of location.go one to one           *)
(* (0-based, end-exclusive, exactly the Go fields):                       *)
(*   Pt(p)  Point      Bw(p)  Between     Rg(s,e,p5,p3)  Ranged           *)
(*   Am(s,e) Ambiguous Jn(xs) Joined      Od(xs) Ordered  Cp(x) Complemented*)
(* plus NilLoc for a nil interface value (reachable through a defect).    *)
(* The JSON written by the Go harness deserialises to exactly these       *)
(* records, so the *projection to meaning is done here, inside TLA+*.     *)
(*                                                                         *)
(* Meaning of a term:                                                      *)
(*   Den(t)    ordered list of <<position, strand>> it denotes             *)
(*   Leaves(t) its atomic parts in feature (5'->3') direction, each with   *)
(*             its own denotation, its partial markers in feature          *)
(*             direction and, for a zero-length site, its gap              *)
(*   F5/F3     outer partial markers in feature direction                  *)
(*   Sites     gaps of the zero-length sites                               *)
(*   WF(t,L)   every coordinate refers into a sequence of length L         *)
(*   PrintLoc(t)  INSDC text                                                   *)
(***************************************************************************)
EXTENDS Integers, Sequences, FiniteSets, TLC

Pt(p)          == [k |-> "pt", p |-> p]
Bw(p)          == [k |-> "bw", p |-> p]
Rg(s, e, a, b) == [k |-> "rg", s |-> s, e |-> e, p5 |-> a, p3 |-> b]
Am(s, e)       == [k |-> "am", s |-> s, e |-> e]
Jn(xs)         == [k |-> "jn", xs |-> xs]
Od(xs)         == [k |-> "od", xs |-> xs]
Cp(x)          == [k |-> "cp", x |-> x]
NilLoc         == [k |-> "nil"]

IMax(a, b) == IF b < a THEN a ELSE b
IMin(a, b) == IF a < b THEN a ELSE b

RevSeq(s) == [j \in 1..Len(s) |-> s[Len(s) + 1 - j]]

\* reverse a denotation and flip every strand (meaning of complement(...))
RevFlip(d) == [j \in 1..Len(d) |-> <<d[Len(d) + 1 - j][1], 0 - d[Len(d) + 1 - j][2]>>]

RECURSIVE FlatSeq(_)
FlatSeq(ss) == IF ss = <<>> THEN <<>> ELSE Head(ss) \o FlatSeq(Tail(ss))

RangeDen(s, e) == [j \in 1..(e - s) |-> <<s + j - 1, 1>>]

RECURSIVE Den(_)
Den(t) ==
  CASE t.k = "pt" -> << <<t.p, 1>> >>
    [] t.k = "bw" -> << >>
    [] t.k = "rg" -> RangeDen(t.s, t.e)
    [] t.k = "am" -> RangeDen(t.s, t.e)
    [] t.k = "jn" -> FlatSeq([j \in 1..Len(t.xs) |-> Den(t.xs[j])])
    [] t.k = "od" -> FlatSeq([j \in 1..Len(t.xs) |-> Den(t.xs[j])])
    [] t.k = "cp" -> RevFlip(Den(t.x))
    [] OTHER      -> << >>

\* a leaf: den, markers in feature direction, gap (>= 0 only for a site)
Leaf(d, a, b, g) == [den |-> d, m5 |-> a, m3 |-> b, gap |-> g, amb |-> FALSE]
FlipLeaf(lf)     == [den |-> RevFlip(lf.den), m5 |-> lf.m3, m3 |-> lf.m5, gap |-> lf.gap, amb |-> lf.amb]

RECURSIVE Leaves(_)
Leaves(t) ==
  CASE t.k = "pt" -> << Leaf(Den(t), FALSE, FALSE, -1) >>
    [] t.k = "bw" -> << Leaf(<<>>, FALSE, FALSE, t.p) >>
    [] t.k = "rg" -> << Leaf(Den(t), t.p5, t.p3, -1) >>
    [] t.k = "am" -> << [Leaf(Den(t), FALSE, FALSE, -1) EXCEPT !.amb = TRUE] >>
    [] t.k = "jn" -> FlatSeq([j \in 1..Len(t.xs) |-> Leaves(t.xs[j])])
    [] t.k = "od" -> FlatSeq([j \in 1..Len(t.xs) |-> Leaves(t.xs[j])])
    [] t.k = "cp" -> LET ls == Leaves(t.x)
                     IN [j \in 1..Len(ls) |-> FlipLeaf(ls[Len(ls) + 1 - j])]
    [] OTHER      -> << >>

\* the non-empty parts, in feature direction
Parts(t) == SelectSeq(Leaves(t), LAMBDA lf : lf.den # <<>>)

F5(t) == LET ps == Parts(t) IN IF ps = <<>> THEN FALSE ELSE ps[1].m5
F3(t) == LET ps == Parts(t) IN IF ps = <<>> THEN FALSE ELSE ps[Len(ps)].m3

Sites(t) == LET ls == Leaves(t) IN {ls[j].gap : j \in {x \in 1..Len(ls) : ls[x].gap >= 0}}

RECURSIVE WF(_, _)
WF(t, L) ==
  CASE t.k = "pt" -> 0 <= t.p /\ t.p < L
    [] t.k = "bw" -> 0 <= t.p /\ t.p <= L
    [] t.k = "rg" -> 0 <= t.s /\ t.s < t.e /\ t.e <= L
    [] t.k = "am" -> 0 <= t.s /\ t.s < t.e /\ t.e <= L
    [] t.k = "jn" -> Len(t.xs) > 0 /\ \A j \in 1..Len(t.xs) : WF(t.xs[j], L)
    [] t.k = "od" -> Len(t.xs) > 0 /\ \A j \in 1..Len(t.xs) : WF(t.xs[j], L)
    [] t.k = "cp" -> WF(t.x, L)
    [] OTHER      -> FALSE

\* some ambiguous span of t would cross the origin after rotating by m
RECURSIVE AmCrosses(_, _, _)
AmCrosses(t, m, L) ==
  CASE t.k = "am" -> ((t.s + m) % L) + (t.e - t.s) > L
    [] t.k \in {"jn", "od"} -> \E j \in 1..Len(t.xs) : AmCrosses(t.xs[j], m, L)
    [] t.k = "cp" -> AmCrosses(t.x, m, L)
    [] OTHER -> FALSE

RECURSIVE HasNil(_)
HasNil(t) ==
  CASE t.k = "nil" -> TRUE
    [] t.k \in {"jn", "od"} -> \E j \in 1..Len(t.xs) : HasNil(t.xs[j])
    [] t.k = "cp" -> HasNil(t.x)
    [] OTHER -> FALSE

RECURSIVE Depth(_)
Depth(t) ==
  CASE t.k \in {"jn", "od"} ->
         1 + (LET ds == {Depth(t.xs[j]) : j \in 1..Len(t.xs)}
              IN IF ds = {} THEN 0 ELSE CHOOSE d \in ds : \A e \in ds : e <= d)
    [] t.k = "cp" -> 1 + Depth(t.x)
    [] OTHER -> 0

\* INSDC text (1-based, inclusive) as printed by Location.String
RECURSIVE JoinStr(_, _)
JoinStr(ss, sep) ==
  IF ss = <<>> THEN "" ELSE
  IF Len(ss) = 1 THEN ss[1] ELSE ss[1] \o sep \o JoinStr(Tail(ss), sep)
RECURSIVE PrintLoc(_)
PrintLoc(t) ==
  CASE t.k = "pt" -> ToString(t.p + 1)
    [] t.k = "bw" -> ToString(t.p) \o "^" \o ToString(t.p + 1)
    [] t.k = "rg" -> (IF t.p5 THEN "<" ELSE "") \o ToString(t.s + 1) \o ".."
                     \o (IF t.p3 THEN ">" ELSE "") \o ToString(t.e)
    [] t.k = "am" -> ToString(t.s + 1) \o "." \o ToString(t.e)
    [] t.k = "jn" -> "join(" \o JoinStr([j \in 1..Len(t.xs) |-> PrintLoc(t.xs[j])], ",") \o ")"
    [] t.k = "od" -> "order(" \o JoinStr([j \in 1..Len(t.xs) |-> PrintLoc(t.xs[j])], ",") \o ")"
    [] t.k = "cp" -> "complement(" \o PrintLoc(t.x) \o ")"
    [] OTHER      -> "<nil>"

(***************************************************************************)
(* Denotation helpers                                                      *)
(***************************************************************************)
SeqToSet(s) == {s[j] : j \in 1..Len(s)}

\* keep the first occurrence of every element ("duplicated parts denote
\* their residues once")
RECURSIVE DedupFrom(_, _)
DedupFrom(s, seen) ==
  IF s = <<>> THEN <<>>
  ELSE IF Head(s) \in seen THEN DedupFrom(Tail(s), seen)
       ELSE <<Head(s)>> \o DedupFrom(Tail(s), seen \cup {Head(s)})
Dedup(s) == DedupFrom(s, {})

IsCyclicShift(a, b) ==
  /\ Len(a) = Len(b)
  /\ \/ a = b
     \/ \E r \in 1..(Len(a) - 1) :
          \A j \in 1..Len(a) : b[j] = a[((j - 1 + r) % Len(a)) + 1]

(***************************************************************************)
(* Bounded universes of terms, used by the generators and design checks.   *)
(***************************************************************************)
BOOLS == {TRUE, FALSE}
Points(L)   == {Pt(p) : p \in 0..(L - 1)}
Betweens(L) == {Bw(p) : p \in 0..L}
Ranges(L)   == {r \in {Rg(s, e, a, b) : s \in 0..(L - 1), e \in 1..L, a \in BOOLS, b \in BOOLS} : r.s < r.e}
PlainRanges(L) == {r \in Ranges(L) : ~r.p5 /\ ~r.p3}
Ambigs(L)   == {r \in {Am(s, e) : s \in 0..(L - 1), e \in 1..L} : r.s + 1 < r.e}
Atoms(L)    == Points(L) \cup Betweens(L) \cup Ranges(L) \cup Ambigs(L)

\* all sequences of length n over the set S
RECURSIVE SeqsOf(_, _)
SeqsOf(S, n) == IF n = 0 THEN {<<>>} ELSE {<<x>> \o r : x \in S, r \in SeqsOf(S, n - 1)}

=============================================================================
