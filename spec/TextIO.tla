------------------------------- MODULE TextIO -------------------------------
(***************************************************************************)
(* C16 (ORIGIN block layout) and C17 (FASTA wrapping and record streams).  *)
(* Text is not modelled character by character: the layout is arithmetic   *)
(* (line index, group lengths, byte counts) and the record stream is a     *)
(* FIFO queue of (description, residues).                                  *)
(***************************************************************************)
EXTENDS Integers, Sequences, FiniteSets, TLC

(******************************* ORIGIN ***********************************)
\* abstract layout: line k (0-based) starts with index 60k+1 right-aligned in
\* 9 columns, then up to six groups of ten residues each preceded by a space
NLines(n) == (n + 59) \div 60
GroupsOf(r) == [j \in 1..((r + 9) \div 10) |-> IF j * 10 <= r THEN 10 ELSE r - (j - 1) * 10]   \* r residues on the line
LineAt(n, k) == [idx |-> 60 * k + 1, groups |-> GroupsOf(IF n - 60 * k >= 60 THEN 60 ELSE n - 60 * k)]
Lines(n) == [k \in 1..NLines(n) |-> LineAt(n, k - 1)]
RECURSIVE SumSeq(_)
SumSeq(s) == IF s = <<>> THEN 0 ELSE Head(s) + SumSeq(Tail(s))
LineBytes(ln) == 9 + SumSeq([j \in 1..Len(ln.groups) |-> 1 + ln.groups[j]]) + 1
BlockLen(n) == SumSeq([k \in 1..NLines(n) |-> LineBytes(LineAt(n, k - 1))])
\* the same sum with the full lines counted at once (all full lines have the same
\* layout); MC_TextIO checks BlockLen = BlockLenFast for every n of its sweep, the
\* windows of very long blocks use this form
BlockLenFast(n) == (n \div 60) * LineBytes(LineAt(60, 0)) + (IF n % 60 = 0 THEN 0 ELSE LineBytes(LineAt(n, n \div 60)))
SumBound == 6000
BlockLenOf(n) == IF n <= SumBound THEN BlockLen(n) ELSE BlockLenFast(n)

\* calculus: seqio/origin.go toOriginLength / fromOriginLength
ToLenC(n) ==
  LET lines == n \div 60
      ret == lines * 76
      last == n % 60
  IN IF last = 0 THEN ret
     ELSE LET blocks == last \div 10
              ret2 == ret + 10 + blocks * 11
              lb == last % 10
          IN IF lb = 0 THEN ret2 ELSE ret2 + lb + 1
FromLenC(m) ==
  LET lines == m \div 76
      ret == lines * 60
      last == m % 76
  IN IF last = 0 THEN ret
     ELSE LET l2 == last - 11
              blocks == l2 \div 11
          IN ret + blocks * 10 + (l2 % 11)

If(c, vs) == IF c THEN vs ELSE {}

\* e: one observed length n
JudgeOrigin(e) ==
  If(e.blocklen # BlockLenOf(e.n), {"origin-blocklen"})
  \cup If(e.full /\ e.lines # Lines(e.n), {"origin-layout"})
  \cup If(~e.full /\ (e.nlines # NLines(e.n) \/ e.lastline # (IF e.n = 0 THEN [idx |-> 0, groups |-> <<>>] ELSE LineAt(e.n, NLines(e.n) - 1))), {"origin-layout"})
  \cup If(\E j \in 1..Len(e.probes) : e.probes[j].line # LineAt(e.n, e.probes[j].k), {"origin-layout"})
  \cup If(~e.content, {"origin-content"})
  \cup If(e.lennodecode # e.n, {"origin-len-nodecode"})
  \cup If(~e.byteseq, {"origin-decode"})
  \cup If(e.lenafter # e.n, {"origin-len"})
  \cup If(e.fast # "ok", {"origin-fastpath"})
  \cup If(e.slow # "ok", {"origin-slowpath"})
  \cup If(e.scanlen # e.n, {"origin-scan-len"})
  \* two records of one stream, both scanned before either is decoded: each keeps its own residues
  \cup If(~e.pair_fast, {"origin-stream-fastpath"}) \cup If(~e.pair_slow, {"origin-stream-slowpath"})
  \* a scanned record written back before its block is decoded reproduces the canonical text
  \cup If(~e.rewrite_fast, {"origin-rewrite-fastpath"}) \cup If(~e.rewrite_slow, {"origin-rewrite-slowpath"})

(******************************** FASTA ***********************************)
WrapLines(n, w) == [j \in 1..((n + w - 1) \div w) |-> IF j * w <= n THEN w ELSE n - (j - 1) * w]

\* e.written / e.read: sequences of [desc, res]; e.linelens: per record the body line lengths
JudgeFasta(e) ==
  If(e.wpanic # "" \/ e.rpanic # "", {"fasta-panic"})
  \cup If(e.rerr # "", {"fasta-rejected"})
  \cup If(Len(e.read) # Len(e.written), {"fasta-count"})
  \cup If(e.splitdiff # -1, {"fasta-split-read"})   \* reading must not depend on where the reader's buffer ends
  \cup UNION {If(j <= Len(e.read) /\ e.read[j].desc # e.written[j].desc, {"fasta-desc"})
              \cup If(j <= Len(e.read) /\ e.read[j].res # e.written[j].res, {"fasta-residues"})
              \cup If(j > Len(e.linelens) \/ (j <= Len(e.linelens) /\ e.linelens[j] # (IF Len(e.written[j].res) = 0 THEN <<0>> ELSE WrapLines(Len(e.written[j].res), 70))), {"fasta-wrap"})
             : j \in 1..Len(e.written)}

\* GenBank record written as FASTA
JudgeGbFasta(e) ==
  LET want == IF Len(e.region) # 2 THEN e.version \o " " \o e.definition
              ELSE e.version \o ":" \o ToString(e.region[1] + 1) \o "-" \o ToString(e.region[2]) \o " " \o e.definition
  IN If(e.panic # "", {"gbfasta-panic"})
     \cup If(e.panic = "" /\ e.desc # want, {"gbfasta-desc"})
     \cup If(e.panic = "" /\ e.res # e.gbres, {"gbfasta-residues"})

=============================================================================
