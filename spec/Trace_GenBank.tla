---------------------------- MODULE Trace_GenBank ----------------------------
(* Trace validation for C01: every logged write / scan / write is judged:    *)
(* the stream is a FIFO (count and order), every field of every record reads *)
(* back as written, and the second write reproduces the first byte for byte. *)
(* The qualifier registry is advanced alongside (teaching events, then what  *)
(* the reader learns from the record itself).                                *)
EXTENDS GenBank, Json, IOUtils, SequencesExt
CONSTANT Devs    \* "QuoteInValue", "TrailingBackslash": quoted values gts cannot read back
                 \* "OrganismWrap": an ORGANISM name longer than the 67-column wrap width

Trace == ndJsonDeserialize(IOEnv.TRACE)
N == Len(Trace)
VARIABLES l, verdicts, nrecs
vars == <<l, verdicts, nrecs>>
TInit == l = 1 /\ verdicts = {} /\ nrecs = 0
Tag(e, vs) == {<<l, e.case, v[1], v[2], v[3]>> : v \in vs}

\* does record w carry a quoted value that gts cannot read back?  (values are
\* opaque strings in TLA+; the generator marks them by a recognisable text)
HasQual(w, txt) == \E j \in 1..Len(w.feats) : \E q \in 1..Len(w.feats[j].quals) : w.feats[j].quals[q][2] = txt
LongName == "word1 word2 word3 word4 word5 word6 word7 word8 word9 word10 word11 word12 word13 word14 word15"
\* the recorded deviations present in record w, and what each of them explains
DevsOf(w) ==
  If("QuoteInValue" \in Devs /\ HasQual(w, "has a \"quoted\" word"), {"QuoteInValue"})
  \cup If("TrailingBackslash" \in Devs /\ HasQual(w, "ends with a backslash\\"), {"TrailingBackslash"})
  \cup If("OrganismWrap" \in Devs /\ w.source.name = LongName, {"OrganismWrap"})
Covers(d, rule, field) ==
  CASE d \in {"QuoteInValue", "TrailingBackslash"} -> (rule = "field" /\ field = "feats") \/ rule = "not-fixed-point"
    [] d = "OrganismWrap" -> (rule = "field" /\ field = "source") \/ rule = "not-fixed-point"
    [] OTHER -> FALSE
DevTag(w, rule, field) ==
  LET ds == {d \in DevsOf(w) : Covers(d, rule, field)} IN IF ds = {} THEN "-" ELSE "dev:" \o (CHOOSE d \in ds : TRUE)

EvGb ==
  /\ Trace[l].ev = "gb"
  /\ LET e == Trace[l]
         nw == Len(e.written)
         nr == Len(e.read)
         tag(rule, f) == IF nw >= 1 THEN DevTag(e.written[nw], rule, f) ELSE "-"
         vs == If(e.wpanic # "", {<<"write-panic", "-", "-">>})
               \cup If(e.rpanic # "", {<<"read-panic", "-", "-">>})
               \cup If(e.wpanic = "" /\ e.rpanic = "" /\ e.rerr # "", {<<"rejected", "-", "-">>})
               \cup If(e.wpanic = "" /\ e.rpanic = "" /\ e.rerr = "" /\ nr # nw, {<<"fifo-count", "-", "-">>})
               \cup UNION {{<<"field", f, IF k = nw THEN tag("field", f) ELSE "-">> : f \in Differing(e.written[k], e.read[k])} : k \in 1..(IF nr < nw THEN nr ELSE nw)}
               \cup If(e.wpanic = "" /\ e.rpanic = "" /\ e.rerr = "" /\ nr = nw /\ ~e.fixed, {<<"not-fixed-point", "-", tag("not-fixed-point", "-")>>})
               \* reading must not depend on where the reader's buffer happens to end
               \cup If("splitdiff" \in DOMAIN e /\ e.splitdiff # -1, {<<"split-read", "-", "-">>})
     IN /\ verdicts' = verdicts \cup Tag(e, vs)
        /\ nrecs' = nrecs + nw

Consume == l <= N /\ EvGb /\ l' = l + 1
Finish ==
  /\ l = N + 1
  /\ LET vseq == SetToSeq(verdicts) IN
     ndJsonSerialize(IOEnv.VERDICTS,
        <<[consumed |-> l - 1, ops |-> nrecs, nverdicts |-> Cardinality(verdicts)]>>
        \o [j \in 1..Len(vseq) |-> [line |-> vseq[j][1], case |-> vseq[j][2], op |-> vseq[j][3],
                                     rule |-> vseq[j][3], label |-> vseq[j][4], calc |-> vseq[j][5]]])
  /\ l' = l + 1 /\ UNCHANGED <<verdicts, nrecs>>
TNext == Consume \/ Finish
TSpec == TInit /\ [][TNext]_vars
TraceAccepted == TLCGet("stats").diameter = N + 2
=============================================================================
