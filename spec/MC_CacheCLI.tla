----------------------------- MODULE MC_CacheCLI -----------------------------
(***************************************************************************)
(* Design check of the transparent cache (Transparent, DirSound over all   *)
(* histories of length <= 4) and generator of invocation histories for     *)
(* the real gts binary: per cached subcommand a PROBE invocation and its    *)
(* NEIGHBOURS (differing in exactly one option, one positional argument,   *)
(* the output format, the primary or a secondary input), and every history *)
(* of length <= HLen over {probe, neighbour} x {stdout, -o file}.           *)
(***************************************************************************)
EXTENDS CacheCLI, Json, IOUtils, SequencesExt, CSV

CONSTANTS HLen, Stride, Offset

\* --- command table: probe = [cmd, pos, opts, input]; dims = ways to get a neighbour
Flag(s) == [k |-> "flag", s |-> s]
Val(s, v) == [k |-> "val", s |-> s, v |-> v]
Val2(s, a, b) == [k |-> "val2", s |-> s, a |-> a, b |-> b]   \* both invocations carry the option, with different values
Pos(i, v) == [k |-> "pos", i |-> i, v |-> v]
In(v) == [k |-> "input", v |-> v]
Perm == [k |-> "perm"]      \* the first two positional arguments swapped
Fmt == Val("-F", "fasta")
\* the neighbour writes to "-o <file><ext>": the extension selects the output format
\* (seqio.Detect), so it changes the output although no option differs
Ext(v) == [k |-> "ext", v |-> v]
\* both invocations carry option arguments, a for the probe and b for the neighbour (e.g. the same words
\* split differently over the values of a list-valued option)
Args2(a, b) == [k |-> "args2", a |-> a, b |-> b]
\* the neighbour is ANOTHER subcommand with exactly the same arguments and input (commands whose cache payloads
\* have the same shape must still not share entries)
OtherCmd(c) == [k |-> "cmd", v |-> c]

C(cmd, pos, input, dims) == [cmd |-> cmd, pos |-> pos, input |-> input, dims |-> dims]

Commands == <<
  C("annotate", <<"{file:table1}">>, "phix", <<Pos(1, "{file:table2}"), In("part"), Fmt, Ext(".fasta")>>),
  C("clear", <<>>, "phix", <<In("part"), Fmt, Ext(".fasta")>>),
  C("complement", <<>>, "phix", <<In("part"), Fmt, Ext(".fasta")>>),
  C("define", <<"misc_feature", "10..20">>, "phix", <<Pos(1, "gene"), Pos(2, "30..40"), Val("-q", "note=x"), Val2("-q", "note=x", "note=y"),
       \* option values are byte strings: {byte:XX} is replaced by that raw byte (not valid UTF-8)
       Val2("-q", "note=a{byte:ff}b", "note=a{byte:fe}b"),
       Args2(<<"-q", "note=putative", "-q", "kinase">>, <<"-q", "note=putative kinase">>), In("part"), Fmt, Ext(".fasta")>>),
  C("delete", <<"CDS">>, "phix", <<Flag("-e"), Pos(1, "gene"), In("part"), Fmt, Ext(".fasta")>>),
  C("extract", <<"CDS">>, "phix", <<Flag("-v"), Pos(1, "gene"), In("part"), Fmt, Ext(".fasta"), Val2("-F", "fasta", "genbank")>>),
  C("extract", <<"1..10", "21..40">>, "phix", <<Perm, Pos(2, "31..50")>>),
  C("select", <<"CDS", "gene">>, "phix", <<Perm, Pos(2, "source")>>),
  C("infix", <<"^+10", "{file:part}">>, "guest", <<Flag("-e"), Pos(1, "^+20"), Pos(2, "{file:ecoli}"), In("guest2"), Fmt, Ext(".fasta")>>),
  C("insert", <<"^+10", "@acgtacgt">>, "phix", <<Flag("-e"), Pos(1, "^+20"), Pos(2, "@ggccggcc"), In("part"), Fmt, Ext(".fasta")>>),
  \* secondary / primary inputs with identical residues but different annotation
  C("insert", <<"^+10", "{file:part}">>, "phix", <<Pos(2, "{file:partB}"), Pos(2, "{file:partC}")>>),
  C("infix", <<"^+10", "{file:part}">>, "guest", <<Pos(2, "{file:partB}"), Pos(2, "{file:partC}")>>),
  C("reverse", <<>>, "part", <<In("partB"), In("partC")>>),
  C("query", <<>>, "part", <<In("partB"), In("partC")>>),
  \* separators / delimiters of several bytes that share their first byte (U+00A6, U+00B7), on a record whose
  \* feature carries two values of one qualifier
  C("query", <<"-n", "note">>, "partD", <<Val2("-t", "{byte:c2}{byte:a6}", "{byte:c2}{byte:b7}"), Val2("-d", "{byte:c2}{byte:a6}", "{byte:c2}{byte:b7}"),
                                         Val2("-t", "ab", "ac"), Val2("-d", "ab", "ac")>>),
  C("rotate", <<"^+10">>, "phix", <<OtherCmd("split"), OtherCmd("delete"), OtherCmd("extract")>>),
  C("split", <<"^+10">>, "phix", <<OtherCmd("rotate")>>),
  C("reverse", <<>>, "part", <<OtherCmd("complement"), OtherCmd("clear"), OtherCmd("repair"), OtherCmd("sort"), OtherCmd("join")>>),
  C("clear", <<>>, "part", <<OtherCmd("repair"), OtherCmd("reverse")>>),
  C("delete", <<"CDS">>, "phix", <<OtherCmd("extract"), OtherCmd("split")>>),
  C("insert", <<"^+10", "{file:part}">>, "phix", <<OtherCmd("infix")>>),
  C("join", <<>>, "two", <<Flag("-c"), In("phix"), Fmt, Ext(".fasta")>>),
  C("pick", <<"1">>, "two", <<Flag("-f"), Pos(1, "2"), In("phix"), Fmt, Ext(".fasta")>>),
  C("query", <<>>, "phix", <<Val("-n", "gene"), Val2("-n", "gene", "product"), Val("-d", ";"), Val2("-d", ";", ":"), Val("-t", "|"), Val2("-t", "|", "+"),
                             \* separators / delimiters of several bytes that share their first byte (U+00A6, U+00B7)

                             Args2(<<"--empty", "-n", "gene", "-n", "product">>, <<"--empty", "-n", "gene product">>), Flag("-H"), Flag("--source"), Flag("-I"),
                             Flag("-K"), Flag("-L"), Flag("--empty"), In("part")>>),
  C("repair", <<>>, "phix", <<In("part"), Fmt, Ext(".fasta")>>),
  C("reverse", <<>>, "phix", <<In("part"), Fmt, Ext(".fasta"), Val2("-F", "fasta", "genbank")>>),
  C("rotate", <<"^+10">>, "phix", <<Pos(1, "^+20"), In("pbat"), Fmt, Ext(".fasta")>>),
  C("search", <<"@atgc">>, "phix", <<Pos(1, "@ggcc"), Val("-k", "gene"), Val2("-k", "gene", "CDS"), Val2("-q", "note=x", "note=y"), Val("-q", "note=x"),
                                 Args2(<<"-q", "note=a", "-q", "b">>, <<"-q", "note=a b">>), Flag("-e"), Flag("--no-complement"), In("part"), Fmt, Ext(".fasta")>>),
  C("select", <<"CDS">>, "phix", <<Pos(1, "gene"), Val("-s", "forward"), Val("-s", "reverse"), Val2("-s", "forward", "reverse"), Flag("-v"), In("part"), Fmt, Ext(".fasta"), Val2("-F", "fasta", "genbank")>>),
  C("sort", <<>>, "two", <<Flag("-r"), In("phix"), Fmt, Ext(".fasta")>>),
  C("split", <<"CDS">>, "phix", <<Pos(1, "gene"), In("part"), Fmt, Ext(".fasta")>>),
  C("summary", <<>>, "phix", <<Flag("-F"), Flag("-Q"), In("part")>>),
  \* failing inputs: a truncated record makes the command fail
  C("reverse", <<>>, "trunc", <<In("phix")>>),
  C("extract", <<"CDS">>, "trunc", <<Flag("-v"), In("phix")>>),
  C("query", <<>>, "trunc", <<Flag("-H"), In("phix")>>)
>>

\* an invocation: [cmd, args, input]
Inv(cmd, args, input) == [cmd |-> cmd, args |-> args, input |-> input, ext |-> ""]
Probe(c, d) == IF d.k = "val2" THEN Inv(c.cmd, <<d.s, d.a>> \o c.pos, c.input)
               ELSE IF d.k = "args2" THEN Inv(c.cmd, d.a \o c.pos, c.input)
               ELSE Inv(c.cmd, c.pos, c.input)
Neighbour(c, d) ==
  CASE d.k = "val2"  -> Inv(c.cmd, <<d.s, d.b>> \o c.pos, c.input)
    [] d.k = "flag"  -> Inv(c.cmd, <<d.s>> \o c.pos, c.input)
    [] d.k = "val"   -> Inv(c.cmd, <<d.s, d.v>> \o c.pos, c.input)
    [] d.k = "pos"   -> Inv(c.cmd, [c.pos EXCEPT ![d.i] = d.v], c.input)
    [] d.k = "perm"  -> Inv(c.cmd, [c.pos EXCEPT ![1] = c.pos[2], ![2] = c.pos[1]], c.input)
    [] d.k = "input" -> Inv(c.cmd, c.pos, d.v)
    [] d.k = "ext"   -> [Inv(c.cmd, c.pos, c.input) EXCEPT !.ext = d.v]
    [] d.k = "args2" -> Inv(c.cmd, d.b \o c.pos, c.input)
    [] d.k = "cmd"   -> Inv(d.v, c.pos, c.input)

RECURSIVE JoinS(_)
JoinS(ss) == IF ss = <<>> THEN "" ELSE Head(ss) \o " " \o JoinS(Tail(ss))
KeyOf(inv) == inv.cmd \o " " \o JoinS(inv.args) \o "< " \o inv.input \o (IF inv.ext = "" THEN "" ELSE " -o *" \o inv.ext)

\* an invocation with an extension always writes to a file of that extension
Run(inv, sink, nocache) == [cmd |-> inv.cmd, args |-> inv.args, input |-> inv.input,
                            sink |-> IF inv.ext = "" THEN sink ELSE "file" \o inv.ext, nocache |-> nocache, key |-> KeyOf(inv)]

\* histories: sequences over {P,N} x {stdout,file}, length 1..HLen
StepSet == {<<w, s>> : w \in {"P", "N"}, s \in {"stdout", "file"}}
RECURSIVE SeqsOver(_, _)
SeqsOver(S, n) == IF n = 0 THEN {<<>>} ELSE {<<x>> \o r : x \in S, r \in SeqsOver(S, n - 1)}
Hists == UNION {SeqsOver(StepSet, n) : n \in 1..HLen}
HistSeq == SetToSeq(Hists)

Pairs == SetToSeq(UNION {{<<ci, di>> : di \in 1..Len(Commands[ci].dims)} : ci \in 1..Len(Commands)})
NCasesAll == Len(Pairs) * Len(HistSeq)
Picked == SelectSeq([j \in 1..NCasesAll |-> j], LAMBDA j : (j + (j \div Stride) + (j \div (Stride * Stride))) % Stride = Offset % Stride)

CaseJson(j) ==
  LET pi == ((j - 1) \div Len(HistSeq)) + 1
      hi0 == ((j - 1) % Len(HistSeq)) + 1
      c == Commands[Pairs[pi][1]]
      d == c.dims[Pairs[pi][2]]
      P == Probe(c, d)
      Nb == Neighbour(c, d)
      h == HistSeq[hi0]
  IN [id |-> "c" \o ToString(Pairs[pi][1]) \o "d" \o ToString(Pairs[pi][2]) \o "h" \o ToString(hi0),
      \* reference runs first (twice: the uncached command must be deterministic)
      runs |-> <<Run(P, "stdout", TRUE), Run(P, "stdout", TRUE), Run(Nb, "stdout", TRUE), Run(Nb, "stdout", TRUE)>>
               \o [q \in 1..Len(h) |-> Run(IF h[q][1] = "P" THEN P ELSE Nb, h[q][2], FALSE)]]

VARIABLES lo, hi, done
gvars == <<lo, hi, done>>
GInit == lo = 1 /\ hi = Len(Picked) /\ done = FALSE /\ Init
Split ==
  /\ lo < hi
  /\ LET mid == (lo + hi) \div 2 IN \/ (lo' = lo /\ hi' = mid) \/ (lo' = mid + 1 /\ hi' = hi)
  /\ done' = FALSE
Emit ==
  /\ lo = hi /\ ~done
  /\ IF "CASES" \in DOMAIN IOEnv THEN CSVWrite("%1$s", <<ToJson(CaseJson(Picked[lo]))>>, IOEnv.CASES) ELSE TRUE
  /\ done' = TRUE /\ UNCHANGED <<lo, hi>>
\* two specifications in one module: GSpec only generates, MSpec explores
\* the abstract cache machine (invariants Transparent, DirSound)
GNext == (Split \/ Emit) /\ UNCHANGED vars
GSpec == GInit /\ [][GNext]_<<gvars, vars>>
MInit == Init /\ lo = 1 /\ hi = 1 /\ done = TRUE
MNext == Next /\ UNCHANGED gvars
MSpec == MInit /\ [][MNext]_<<gvars, vars>>
=============================================================================
