---------------------------- MODULE Trace_Region ----------------------------
(* Trace validation for C08 (Resize, modifier text) and C09 (Minimize /     *)
(* Invert): every logged call is judged by Region.tla.                      *)
EXTENDS Region, Json, IOUtils, SequencesExt

Trace == ndJsonDeserialize(IOEnv.TRACE)
N == Len(Trace)
VARIABLES l, verdicts, ndrift
vars == <<l, verdicts, ndrift>>
TInit == l = 1 /\ verdicts = {} /\ ndrift = 0

Tag(e, what, vs, calc) == {<<l, e.case, what, v, calc>> : v \in vs}

\* bytes the resized region must extract, from its own denotation
ExtBytes(res, den) == [j \in 1..Len(den) |-> res[den[j][1] + 1]]

EvResize ==
  /\ Trace[l].ev = "resize"
  /\ LET e == Trace[l] IN
     IF e.panic # ""
     THEN verdicts' = verdicts \cup {<<l, e.case, PrintMod(e.mod), "panic", "-">>} /\ UNCHANGED ndrift
     ELSE LET calc == IF e.out = ResizeC(e.region, e.mod) THEN "same" ELSE "diff"
              want == ResizeDen(e.region, e.mod)
              fwdOnly == \A j \in 1..Len(want) : want[j][2] = 1
              vs == JudgeResize(e.region, e.mod, e.out)
                    \cup If(e.mstr # PrintMod(e.mod), {"mod-print"})
                    \cup If(e.merr # "" \/ [k |-> e.mback.k, p |-> e.mback.p, q |-> e.mback.q]
                                            # [k |-> e.mod.k, p |-> e.mod.p, q |-> (IF "q" \in DOMAIN e.mod THEN e.mod.q ELSE 0)],
                            {"mod-roundtrip"})
                    \* extraction of the resized region = that slice of the spliced sequence
                    \* (forward-strand regions: bytes directly; the complement table is C18's)
                    \cup If(Directed(e.region) /\ e.extok /\ fwdOnly
                            /\ (\A j \in 1..Len(want) : want[j][1] >= 0 /\ want[j][1] < Len(e.res))
                            /\ e.ext # ExtBytes(e.res, want), {"resize-extract"})
          IN /\ verdicts' = verdicts \cup Tag(e, PrintMod(e.mod), vs, calc)
             /\ ndrift' = ndrift + (IF calc = "diff" THEN 1 ELSE 0)

EvMinimize ==
  /\ Trace[l].ev = "minimize"
  /\ LET e == Trace[l]
         vs == (IF e.minpanic # "" THEN {"min-panic"} ELSE JudgeMinimize(e.coll, e.min))
               \cup (IF e.linpanic # "" THEN {"lin-panic"} ELSE JudgeInvert(e.coll, e.n, e.lin, FALSE))
               \cup (IF e.circpanic # "" THEN {"circ-panic"} ELSE JudgeInvert(e.coll, e.n, e.circ, TRUE))
         calc == IF e.minpanic = "" /\ e.min = MinimizeC(e.coll) THEN "same" ELSE "diff"
     IN /\ verdicts' = verdicts \cup Tag(e, ToString(l), vs, calc)
        /\ ndrift' = ndrift + (IF calc = "diff" THEN 1 ELSE 0)

Consume == l <= N /\ (EvResize \/ EvMinimize) /\ l' = l + 1

Finish ==
  /\ l = N + 1
  /\ LET vseq == SetToSeq(verdicts) IN
     ndJsonSerialize(IOEnv.VERDICTS,
        <<[consumed |-> l - 1, ops |-> l - 1, nverdicts |-> Cardinality(verdicts), drift |-> ndrift]>>
        \o [j \in 1..Len(vseq) |-> [line |-> vseq[j][1], case |-> vseq[j][2], op |-> vseq[j][3],
                                     rule |-> vseq[j][4], label |-> "-", calc |-> vseq[j][5]]])
  /\ l' = l + 1 /\ UNCHANGED <<verdicts, ndrift>>

TNext == Consume \/ Finish
TSpec == TInit /\ [][TNext]_vars
TraceAccepted == TLCGet("stats").diameter = N + 2
=============================================================================
