------------------------------- MODULE MC_Seq -------------------------------
(***************************************************************************)
(* Bounded design check and behaviour generator for the Seq machine.      *)
(*                                                                         *)
(* A case is a small workspace program: one host record carrying a chunk  *)
(* of the bounded term universe as its feature table, plus (for Insert /   *)
(* Embed) a guest, one library call with concrete arguments, and the       *)
(* follow-up calls and laws that the listed properties name (insert ;      *)
(* delete restores, rotate n ; rotate -n, reverse ; reverse, complement ;  *)
(* complement, reverse ; complement extracts the same, ...).               *)
(*                                                                         *)
(* TLC enumerates every case (one initial state each) and                  *)
(*   - with INVARIANT DesignOK: runs the program on the CALCULUS layer and *)
(*     judges every step with the abstract layer.  Every verdict must be   *)
(*     explained by a named deviation in Devs (cfg *_code) and there must  *)
(*     be none at all for the repaired calculus (cfg *_repaired).          *)
(*   - with env CASES set: writes the case as one JSON line; the Go        *)
(*     harness replays exactly these programs on the real library.         *)
(***************************************************************************)
EXTENDS SeqMachine, Json, IOUtils, SequencesExt, CSV

CONSTANTS Ls,        \* set of host lengths
          Family,    \* "edit" | "rot2" | "cuts" | "cutsshared" | "cutsrepair" | "reptab" | "pure"
          OpKinds,   \* which kinds of "edit" programs (insert, embed, delete, ...)
          Chunk,     \* features per host table
          Stride,    \* take every Stride-th case (quick tier sampling) ...
          Offset,    \* ... starting at Offset (seed)
          MaxGuest,  \* guest lengths 1..MaxGuest
          PureLen    \* purity programs: up to PureLen operations

(***************************************************************************)
(* Bounded universe of location terms for length L                         *)
(***************************************************************************)
JoinParts(L) == Points(L) \cup Betweens(L) \cup PlainRanges(L)
Solid(L)     == Points(L) \cup PlainRanges(L)
Lo(t) == Span(t)[1]
Hi(t) == Span(t)[2]

J2(L)  == {Jn(<<a, b>>) : a \in JoinParts(L), b \in JoinParts(L)} \ {Jn(<<a, a>>) : a \in JoinParts(L)}
J2p(L) == {Jn(<<Rg(r1.s, r1.e, p[1], FALSE), Rg(r2.s, r2.e, FALSE, p[2])>>) :
             r1 \in PlainRanges(L), r2 \in PlainRanges(L), p \in {<<TRUE, FALSE>>, <<FALSE, TRUE>>, <<TRUE, TRUE>>}}
O2(L)  == {Od(<<a, b>>) : a \in Solid(L) \cup Ambigs(L), b \in Solid(L) \cup Ambigs(L)}
J3(L)  == {Jn(<<a, b, c>>) : a \in Solid(L), b \in JoinParts(L), c \in Solid(L)}
JC2(L) == {Jn(<<Cp(a), Cp(b)>>) : a \in Solid(L), b \in Solid(L)}
J45(L) ==  \* arities 4 and 5 (parity matters for Reverse): ascending points
  {Jn(<<Pt(a), Pt(b), Pt(c), Pt(d)>>) : a \in 0..(L-1), b \in 0..(L-1), c \in 0..(L-1), d \in 0..(L-1)}
Asc(t) == \A j \in 1..(Len(t.xs) - 1) : t.xs[j].p < t.xs[j + 1].p

DenSet(t) == {x[1] : x \in SeqToSet(Den(t))}
Disjoint2(t) == DenSet(t.xs[1]) \cap DenSet(t.xs[2]) = {}

U(L) ==
  LET base == Atoms(L)
              \cup {t \in J2(L) : Disjoint2(t)}
              \cup {t \in J2p(L) : Hi(t.xs[1]) <= Lo(t.xs[2])}
              \cup {t \in O2(L) : Hi(t.xs[1]) <= Lo(t.xs[2])}
              \cup {t \in J3(L) : Hi(t.xs[1]) <= Lo(t.xs[2]) /\ Hi(t.xs[2]) <= Lo(t.xs[3]) /\ Hi(t.xs[1]) < Lo(t.xs[3])}
              \cup {t \in J45(L) : Asc(t)}
              \cup {Jn(<<Pt(a), Pt(a + 1), Pt(a + 2), Pt(a + 3), Pt(a + 4)>>) : a \in 0..(L - 5)}
              \cup {Od(<<Pt(a), Rg(a + 1, a + 3, FALSE, FALSE), Pt(a + 3)>>) : a \in 0..(L - 4)}
      \* mixed-strand joins whose complement part is itself a join (nested regions)
      nested == {Jn(<<Cp(Jn(<<a, b>>)), c>>) : a \in Points(L), b \in Solid(L), c \in Solid(L)}
                \cup {Jn(<<c, Cp(Jn(<<a, b>>))>>) : a \in Points(L), b \in Solid(L), c \in Points(L)}
      nestedOK == {t \in nested : LET j == IF t.xs[1].k = "cp" THEN t.xs[1].x ELSE t.xs[2].x
                                     c == IF t.xs[1].k = "cp" THEN t.xs[2] ELSE t.xs[1]
                                 IN Hi(j.xs[1]) < Lo(j.xs[2]) /\ (Hi(j.xs[2]) < Lo(c) \/ Hi(c) < Lo(j.xs[1]))}
  IN base \cup {Cp(t) : t \in base}
     \cup {t \in JC2(L) : Hi(t.xs[2].x) <= Lo(t.xs[1].x)}
     \cup nestedOK \cup {Cp(t) : t \in nestedOK}

\* constant-level (evaluated once by TLC): the ordered universe per length
TermSeqs == [L \in Ls |-> SetToSeq(U(L))]
TermSeq(L) == TermSeqs[L]
NChunks(L) == (Len(TermSeq(L)) + Chunk - 1) \div Chunk

(***************************************************************************)
(* Records                                                                 *)
(***************************************************************************)
KeyOf(j) == IF j % 9 = 0 THEN "source" ELSE "gene"
\* 70 letters, containing the word "source" (a class key must not be searched for feature keys)
LongLab == "xxxxopensourcexxxxxxxxxxxxxxxxxxxxxxxxxxxxxxxxxxxxxxxxxxxxxxxxxxxxxxxxxx"
FeatRec(t, lab, key) == [key |-> key, label |-> lab, loc |-> t, built |-> (Family \in {"cutsrepair", "reptab"})]

HostFeats(L, c) ==
  LET ts == TermSeq(L)
      lo == (c - 1) * Chunk
      n  == IMin(Chunk, Len(ts) - lo)
  \* "reptab": several features share key and qualifiers (label = j mod 5)
  \* their qualifier value is 70 letters long and the classes differ only in the last letter (a class key
  \* must compare whole values)
  IN [j \in 1..n |-> FeatRec(ts[lo + j], (IF Family = "reptab" THEN "f" \o LongLab ELSE "f") \o ToString(IF Family = "reptab" THEN j % 5 ELSE j),
                              IF Family = "reptab" THEN (IF j % 5 = 0 THEN "source" ELSE "gene") ELSE KeyOf(j))]

GuestFeats(n) ==
  << FeatRec(Rg(0, n, FALSE, FALSE), "g1", "gene"),
     FeatRec(Pt(0), "g2", "gene"),
     FeatRec(Cp(Rg(0, n, TRUE, FALSE)), "g3", "gene"),
     FeatRec(Bw(0), "g4", "misc"),
     FeatRec(Bw(n), "g5", "misc"),
     FeatRec(Rg(0, n, FALSE, FALSE), "g6", "source") >>

RefRec(rs) == [info |-> "(bases " \o JoinStr([j \in 1..Len(rs) |-> ToString(rs[j][1] + 1) \o " to " \o ToString(rs[j][2])], "; ") \o ")",
               ranged |-> TRUE, ranges |-> rs]
HostRefs(L) == << RefRec(<< <<0, L>> >>), RefRec(<< <<1, 2>>, <<L - 2, L>> >>), [info |-> "(sites)", ranged |-> FALSE, ranges |-> <<>>],
                  RefRec(<< <<L \div 2, (L \div 2) + 1>> >>), [info |-> "", ranged |-> FALSE, ranges |-> <<>>] >>
HostRec(L, c, topo) ==
  [name |-> "r0", res |-> [j \in 1..L |-> 96 + j], topo |-> topo, kind |-> "gb", feats |-> HostFeats(L, c), refs |-> HostRefs(L)]
GuestRec(n) ==
  [name |-> "g0", res |-> [j \in 1..n |-> 64 + j], topo |-> "na", kind |-> "basic", feats |-> GuestFeats(n)]

(***************************************************************************)
(* Programs                                                                *)
(***************************************************************************)
RECURSIVE Pow2(_)
Pow2(n) == IF n <= 0 THEN 1 ELSE 2 * Pow2(n - 1)
\* cut positions encoded by a bit mask over 1..L-1
CutsOf(mask, L) == SelectSeq([j \in 1..(L - 1) |-> j], LAMBDA j : (mask \div Pow2(j - 1)) % 2 = 1)
MaxCuts == 4

Op1(op, src, dst) == [op |-> op, src |-> src, dst |-> dst]
Law(name, a, b)   == [op |-> "law", name |-> name, a |-> a, b |-> b]

EditInstances(L) ==
  {<<"insert", i, n>> : i \in 0..L, n \in 1..MaxGuest}
  \cup {<<"embed", i, n>> : i \in 0..L, n \in 1..MaxGuest}
  \cup {x \in {<<"delete", i, n>> : i \in 0..L, n \in 1..L} : x[2] + x[3] <= L}
  \cup {x \in {<<"erase", i, n>> : i \in 0..L, n \in 1..L} : x[2] + x[3] <= L}
  \cup {x \in {<<"slice", a, b>> : a \in (0 - L)..L, b \in (0 - L)..L} :
          \* forward, wrap-around and negative spellings; empty windows excluded
          /\ NormIdx(x[2], L) # NormIdx(x[3], L)
          /\ NormIdx(x[2], L) < L
          /\ (x[2] < 0 \/ x[3] < 0) => (x[2] \in {0 - 1, 0 - L + 1} \/ x[3] \in {0 - 1}) }
  \cup {<<"rotate", n, 0>> : n \in (0 - 3 * L)..(3 * L)}
  \cup {<<"reverse", 0, 0>>, <<"complement", 0, 0>>, <<"revcomp", 0, 0>>}

Program(L, x) ==
  CASE x[1] = "insert" ->
        << [op |-> "insert", src |-> "r0", guest |-> "g0", dst |-> "r1", i |-> x[2]],
           [op |-> "delete", src |-> "r1", dst |-> "r2", i |-> x[2], n |-> x[3]],
           Law("restored", "r0", "r2"),
           \* the same host and guest values once more, at the mirrored index (in the shared-values run of
           \* the case the guest has been used before)
           [op |-> "insert", src |-> "r0", guest |-> "g0", dst |-> "r3", i |-> L - x[2]] >>
    [] x[1] = "embed" ->
        << [op |-> "embed", src |-> "r0", guest |-> "g0", dst |-> "r1", i |-> x[2]],
           [op |-> "delete", src |-> "r1", dst |-> "r2", i |-> x[2], n |-> x[3]],
           Law("restored", "r0", "r2"),
           [op |-> "embed", src |-> "r0", guest |-> "g0", dst |-> "r3", i |-> L - x[2]] >>
    \* every single-call program applies the call a second time to the same value ("again"): in the
    \* shared-values run of the case a call that wrote through its argument shows up there
    [] x[1] = "delete" -> << [op |-> "delete", src |-> "r0", dst |-> "r1", i |-> x[2], n |-> x[3]],
                             [op |-> "delete", src |-> "r0", dst |-> "r9", i |-> x[2], n |-> x[3]] >>
    [] x[1] = "erase"  -> << [op |-> "erase", src |-> "r0", dst |-> "r1", i |-> x[2], n |-> x[3]],
                             [op |-> "erase", src |-> "r0", dst |-> "r9", i |-> x[2], n |-> x[3]] >>
    [] x[1] = "slice"  -> << [op |-> "slice", src |-> "r0", dst |-> "r1", s |-> x[2], e |-> x[3]],
                             [op |-> "slice", src |-> "r0", dst |-> "r9", s |-> x[2], e |-> x[3]] >>
    [] x[1] = "rotate" ->
        << [op |-> "rotate", src |-> "r0", dst |-> "r1", n |-> x[2]],
           [op |-> "rotate", src |-> "r1", dst |-> "r2", n |-> 0 - x[2]],
           Law("samemeaning", "r0", "r2"),
           [op |-> "rotate", src |-> "r0", dst |-> "r9", n |-> x[2]] >>
    [] x[1] = "reverse" ->
        << Op1("reverse", "r0", "r1"), Op1("reverse", "r1", "r2"), Law("samemeaning", "r0", "r2"), Op1("reverse", "r0", "r9") >>
    [] x[1] = "complement" ->
        << Op1("complement", "r0", "r1"), Op1("complement", "r1", "r2"), Law("sameraw", "r0", "r2"), Op1("complement", "r0", "r9") >>
    [] x[1] = "revcomp" ->
        << Op1("complement", "r0", "r1"), Op1("reverse", "r1", "r2"), Law("sameextract", "r0", "r2"),
           Op1("reverse", "r0", "r8"), Op1("reverse", "r0", "r9") >>
    [] x[1] = "rot2" ->
        << [op |-> "rotate", src |-> "r0", dst |-> "r1", n |-> x[2]],
           [op |-> "rotate", src |-> "r1", dst |-> "r2", n |-> x[3]],
           [op |-> "rotate", src |-> "r0", dst |-> "r3", n |-> x[2] + x[3]],
           Law("samemeaning", "r3", "r2") >>
    [] x[1] = "cuts" ->
        LET cuts == CutsOf(x[2], L)
            bounds == <<0>> \o cuts \o <<L>>
            k == Len(bounds) - 1
            piece(j) == "p" \o ToString(j)
        IN [j \in 1..k |-> [op |-> "slice", src |-> "r0", dst |-> piece(j), s |-> bounds[j], e |-> bounds[j + 1]]]
           \o << [op |-> "concat", srcs |-> [j \in 1..k |-> piece(j)], dst |-> "c"],
                 Law("pieces", "r0", "c") >>
    [] x[1] = "reptab" ->
        << Op1("repair", "r0", "x1"), Op1("repair", "x1", "x2"),
           [op |-> "law", name |-> "sameraw", a |-> "x1", b |-> "x2", via |-> "r0"] >>
    [] x[1] = "cutsrepair" ->
        LET cuts == CutsOf(x[2], L)
            bounds == <<0>> \o cuts \o <<L>>
            k == Len(bounds) - 1
            piece(j) == "p" \o ToString(j)
        IN [j \in 1..k |-> [op |-> "slice", src |-> "r0", dst |-> piece(j), s |-> bounds[j], e |-> bounds[j + 1]]]
           \o << [op |-> "concat", srcs |-> [j \in 1..k |-> piece(j)], dst |-> "c"],
                 Op1("repair", "c", "x1"), Op1("repair", "x1", "x2"),
                 [op |-> "law", name |-> "sameraw", a |-> "x1", b |-> "x2", via |-> "c"], [op |-> "law", name |-> "sametable", a |-> "r0", b |-> "x1", via |-> "c"] >>
    [] OTHER -> << >>

(***************************************************************************)
(* Purity programs (C11): 1..PureLen operations applied to the SAME        *)
(* original values, in every storage configuration; the harness passes the *)
(* arguments as they are (no defensive copies) and re-reads every record   *)
(* through its accessors after every call (probe events).                  *)
(***************************************************************************)
PureOps ==
  << [op |-> "insert", guest |-> "g0", i |-> 2], [op |-> "insert", guest |-> "g0", i |-> 0],
     [op |-> "embed", guest |-> "g0", i |-> 3], [op |-> "delete", i |-> 1, n |-> 2], [op |-> "erase", i |-> 2, n |-> 3],
     [op |-> "slice", s |-> 1, e |-> 5], [op |-> "slice", s |-> 4, e |-> 2], [op |-> "slice", s |-> 0, e |-> 6], [op |-> "rotate", n |-> 2],
     [op |-> "reverse"], [op |-> "complement"], [op |-> "transcribe"], [op |-> "concatg"], [op |-> "concat2"],
     [op |-> "repair"], [op |-> "filter", sel |-> "gene"], [op |-> "finsert", feat |-> [key |-> "gene", label |-> "new", loc |-> Rg(1, 3, FALSE, FALSE)]],
     [op |-> "withfeatures"], [op |-> "withbytes"], [op |-> "withinfo"], [op |-> "copy"] >>
NPure == Len(PureOps)
\* "adjacentg": like "adjacent" (one backing array, one shared feature table) with the guest in front of the host
Stores == <<"exact", "spare", "sub", "adjacent", "parsedorigin", "adjacentg">>
Kinds == <<"gb", "basic">>
\* <<"pure", code, cfg>>: code = base-NPure numeral of the op sequence (PureLen digits, 0 = no op), cfg = store x kind
RECURSIVE PowN(_, _)
PowN(b, n) == IF n = 0 THEN 1 ELSE b * PowN(b, n - 1)
\* the Stride-sample is taken here, before anything is materialised (21^4 codes x 10 configurations
\* exceed TLC's limit on explicit sets); code + cfg are sampled together so that every cfg meets every residue class
PureInstances == {<<"pure", p[1], p[2]>> : p \in {q \in (1..(PowN(NPure + 1, PureLen) - 1)) \X (0..(Len(Stores) * Len(Kinds) - 1)) :
                                                  (q[1] + q[2] + (q[1] \div Stride) + (q[1] \div (Stride * Stride))) % Stride = Offset % Stride}}
RECURSIVE Digits(_, _)
Digits(c, n) == IF n = 0 THEN <<>> ELSE <<c % (NPure + 1)>> \o Digits(c \div (NPure + 1), n - 1)
PureSeq(c) == SelectSeq(Digits(c, PureLen), LAMBDA d : d # 0)
PureProgram(c) ==
  LET ds == PureSeq(c)
      mk(j) == LET t == PureOps[ds[j]]
                   dst == "x" \o ToString(j)
               IN IF t.op = "concatg" THEN [op |-> "concat", srcs |-> <<"r0", "g0">>, dst |-> dst]
                  ELSE IF t.op = "concat2" THEN [op |-> "concat", srcs |-> <<"r0", "r0">>, dst |-> dst]
                  ELSE t @@ [src |-> "r0", dst |-> dst]
      again == [mk(1) EXCEPT !.dst = "y1"]
  \* after the sequence, the first operation is applied to the same value
  \* again: it must give the same result as the first time
  IN [j \in 1..Len(ds) |-> mk(j)] \o <<again, Law("sameraw", "x1", "y1")>>
PureFeats ==
  << FeatRec(Rg(0, 6, FALSE, FALSE), "s", "source"),
     FeatRec(Jn(<<Rg(0, 3, TRUE, FALSE), Rg(3, 6, FALSE, TRUE)>>), "s2", "source"),
     FeatRec(Rg(1, 4, TRUE, FALSE), "f1", "gene"),
     FeatRec(Jn(<<Rg(0, 2, FALSE, FALSE), Rg(3, 5, FALSE, TRUE)>>), "f2", "gene"),
     FeatRec(Cp(Od(<<Pt(1), Rg(4, 6, FALSE, FALSE)>>)), "f3", "gene"),
     FeatRec(Bw(3), "f4", "misc"), FeatRec(Pt(5), "f5", "gene") >>
\* family "puremerge": two fragments with equal key and qualifiers and facing partial ends, and two abutting
\* source fragments - Repair has something to merge (labels repeat, so these records are not design-checked)
PureFeatsM ==
  << FeatRec(Rg(0, 3, FALSE, FALSE), "s", "source"), FeatRec(Rg(3, 6, FALSE, FALSE), "s", "source"),
     FeatRec(Rg(0, 2, FALSE, TRUE), "m", "exon"), FeatRec(Rg(2, 4, TRUE, FALSE), "m", "exon"), FeatRec(Pt(5), "f5", "gene") >>
IsPure == Family \in {"pure", "puremerge"}
PureRecs(g) ==
  LET st == Stores[(g % Len(Stores)) + 1]
      kd == Kinds[(g \div Len(Stores)) + 1]
  IN << [name |-> "r0", res |-> [j \in 1..6 |-> 96 + j], topo |-> "circular", kind |-> kd,
         store |-> (IF st = "adjacentg" THEN "adjacent" ELSE st), buf |-> "B", off |-> (IF st = "adjacentg" THEN 2 ELSE 0),
         feats |-> (IF Family = "puremerge" THEN PureFeatsM ELSE PureFeats),
         refs |-> << RefRec(<< <<0, 6>> >>), RefRec(<< <<1, 4>>, <<4, 6>> >>), [info |-> "(sites)", ranged |-> FALSE, ranges |-> <<>>] >>],
        [name |-> "g0", res |-> [j \in 1..2 |-> 64 + j], topo |-> "na", kind |-> "basic",
         store |-> (IF st = "adjacentg" THEN "adjacent" ELSE st), buf |-> "B", off |-> (IF st = "adjacentg" THEN 0 ELSE 6),
         feats |-> <<FeatRec(Rg(0, 2, FALSE, FALSE), "g1", "gene")>>] >>

TopoFor(x) == IF x[1] \in {"rotate", "rot2", "slice"} THEN "circular" ELSE "linear"

Instances(L) ==
  CASE Family = "edit" -> {x \in EditInstances(L) : x[1] \in OpKinds}
    [] Family = "rot2" -> {<<"rot2", a, b>> : a \in (0 - L)..(2 * L), b \in (0 - L)..(2 * L)}
    [] IsPure -> PureInstances
    [] Family = "reptab" -> {<<"reptab", 0, 0>>}
    [] Family = "cutsrepair" -> {<<"cutsrepair", m, 0>> : m \in 1..(Pow2(L - 1) - 1)} \ {x \in {<<"cutsrepair", m, 0>> : m \in 1..(Pow2(L - 1) - 1)} : Len(CutsOf(x[2], L)) > 3}
    [] Family \in {"cuts", "cutsshared"} -> {<<"cuts", m, 0>> : m \in 0..(Pow2(L - 1) - 1)} \ {x \in {<<"cuts", m, 0>> : m \in 0..(Pow2(L - 1) - 1)} : Len(CutsOf(x[2], L)) > MaxCuts}
    [] OTHER -> {}

\* all cases: <<L, chunk, instance>>
AllCases == UNION {{<<L, c, x>> : c \in (IF IsPure THEN {1} ELSE 1..NChunks(L)), x \in Instances(L)} : L \in Ls}
CaseSeq == SetToSeq(AllCases)
PickedSeq == SelectSeq([j \in 1..Len(CaseSeq) |-> <<j, CaseSeq[j]>>], LAMBDA p : IsPure \/ (p[1] + (p[1] \div Stride) + (p[1] \div (Stride * Stride))) % Stride = Offset % Stride)

CaseId(cs) == "L" \o ToString(cs[1]) \o ".c" \o ToString(cs[2]) \o "." \o cs[3][1] \o "." \o ToString(cs[3][2]) \o "." \o ToString(cs[3][3])

CaseRecs(cs) ==
  IF cs[3][1] = "pure" THEN PureRecs(cs[3][3]) ELSE
  LET L == cs[1]  x == cs[3]
      host == HostRec(L, cs[2], TopoFor(x))
  IN IF x[1] \in {"insert", "embed"} THEN <<host, GuestRec(x[3])>> ELSE <<host>>

CaseJson(cs) ==
  IF cs[3][1] = "pure"
  THEN [id |-> CaseId(cs), recs |-> CaseRecs(cs), ops |-> PureProgram(cs[3][2]), pure |-> TRUE, noext |-> TRUE]
  \* "cutsshared": the pieces are all cut from the SAME value (no defensive copy between the calls)
  ELSE [id |-> CaseId(cs), recs |-> CaseRecs(cs), ops |-> Program(cs[1], cs[3]), shared |-> (Family = "cutsshared")]

(***************************************************************************)
(* Running a program on the calculus layer                                 *)
(***************************************************************************)
RawOf(r) ==
  [res |-> r.res, topo |-> IF r.kind = "gb" THEN r.topo ELSE "na",
   feats |-> [j \in 1..Len(r.feats) |->
                [key |-> r.feats[j].key, label |-> r.feats[j].label,
                 loc |-> IF r.feats[j].built THEN Built(r.feats[j].loc) ELSE r.feats[j].loc,
                 props |-> << <<"label", r.feats[j].label>> >>]],
   refs |-> IF "refs" \in DOMAIN r /\ r.kind = "gb"
            THEN [j \in 1..Len(r.refs) |-> [num |-> j, info |-> r.refs[j].info, ranged |-> r.refs[j].ranged, ranges |-> r.refs[j].ranges]]
            ELSE << >>,
   region |-> << >>]

RECURSIVE InitAll(_, _)
InitAll(ws, rs) ==
  IF rs = <<>> THEN ws
  ELSE LET w2 == StepInit(ws, Head(rs).name, RawOf(Head(rs)), FALSE)
       IN InitAll([w2 EXCEPT !.vs = {}], Tail(rs))

\* returns the set of unexplained verdicts <<step, rule, label>>
RECURSIVE RunOps(_, _, _, _)
RunOps(ws, ops, k, acc) ==
  IF ops = <<>> THEN acc
  ELSE LET o == Head(ops) IN
       IF o.op = "law"
       THEN RunOps(ws, Tail(ops), k + 1, acc \cup {<<k, v[1], v[2],
              (IF v[2] = "-" THEN JoinStr([q \in 1..Len(ws.recs[o.a].raw.feats) |-> ws.recs[o.a].raw.feats[q].label \o ":" \o PrintLoc(ws.recs[o.a].raw.feats[q].loc)], " ") ELSE
               LET fs == SelectSeq(ws.recs[o.a].raw.feats, LAMBDA f : f.label = v[2]) IN IF fs = <<>> THEN "?" ELSE PrintLoc(fs[1].loc)),
              (IF v[2] = "-" THEN JoinStr([q \in 1..Len(ws.recs[o.b].raw.feats) |-> ws.recs[o.b].raw.feats[q].label \o ":" \o PrintLoc(ws.recs[o.b].raw.feats[q].loc)], " ") ELSE
               LET fs == SelectSeq(ws.recs[o.b].raw.feats, LAMBDA f : f.label = v[2]) IN IF fs = <<>> THEN "absent" ELSE JoinStr([q \in 1..Len(fs) |-> PrintLoc(fs[q].loc)], " | "))>> : v \in {w \in StepLaw(ws, o) : ExplainsLaw(ws, o, w) = {}}})
       ELSE LET e  == o @@ [st |-> CalcOp(ws.recs, o), panic |-> ""]
                w2 == StepOp(ws, e, FALSE)
                bad == {v \in w2.vs : Explains(ws, e, v) = {}}
                pre(lab) == IF "src" \notin DOMAIN o THEN "?" ELSE
                            LET fs == SelectSeq(ws.recs[o.src].raw.feats, LAMBDA f : f.label = lab) IN IF fs = <<>> THEN "?" ELSE PrintLoc(fs[1].loc)
                post(lab) == LET fs == SelectSeq(e.st.feats, LAMBDA f : f.label = lab) IN IF fs = <<>> THEN "absent" ELSE PrintLoc(fs[1].loc)
            IN RunOps([w2 EXCEPT !.vs = {}], Tail(ops), k + 1, acc \cup {<<k, v[1], v[2], pre(v[2]), post(v[2])>> : v \in bad})

\* a law can only be trusted when no step deviated; deviating steps are
\* explained one by one above, so laws are judged on the repaired calculus
Unexplained(cs) ==
  LET j == CaseJson(cs)
  IN RunOps(InitAll(EmptyWS, j.recs), j.ops, 1, {})

(***************************************************************************)
(* The (trivial) transition system: one initial state per case             *)
(***************************************************************************)
NCases == Len(PickedSeq)

\* The transition system only spreads the cases over TLC's workers: a binary
\* split of the index range 1..NCases; every leaf is one case.
VARIABLES lo, hi, done
vars == <<lo, hi, done>>

Init == lo = 1 /\ hi = NCases /\ done = FALSE

Split ==
  /\ lo < hi
  /\ LET mid == (lo + hi) \div 2 IN
     \/ (lo' = lo /\ hi' = mid)
     \/ (lo' = mid + 1 /\ hi' = hi)
  /\ done' = FALSE

Emit ==
  /\ lo = hi /\ ~done
  /\ IF "CASES" \in DOMAIN IOEnv
     THEN CSVWrite("%1$s", <<ToJson(CaseJson(PickedSeq[lo][2]))>>, IOEnv.CASES)
     ELSE TRUE
  /\ done' = TRUE /\ UNCHANGED <<lo, hi>>

Next == Split \/ Emit

Spec == Init /\ [][Next]_vars

\* debugging aid: for the verdicts of the FIRST step, the input and output text
Detail(cs0) ==
  LET j == CaseJson(cs0)
      ws0 == InitAll(EmptyWS, j.recs)
      o == j.ops[1]
      st == CalcOp(ws0.recs, o)
      e == o @@ [st |-> st, panic |-> ""]
      w2 == StepOp(ws0, e, FALSE)
      pre(lab) == LET fs == SelectSeq(ws0.recs["r0"].raw.feats, LAMBDA f : f.label = lab) IN IF fs = <<>> THEN "?" ELSE PrintLoc(fs[1].loc)
      post(lab) == LET fs == SelectSeq(st.feats, LAMBDA f : f.label = lab) IN IF fs = <<>> THEN "absent" ELSE PrintLoc(fs[1].loc)
  IN {<<v[1], v[2], pre(v[2]), post(v[2])>> : v \in {v \in w2.vs : Explains(ws0, e, v) = {}}}

DesignOK ==
  (lo = hi /\ ~done) =>
    LET u == Unexplained(PickedSeq[lo][2])
    IN IF u = {} THEN TRUE ELSE PrintT(<<"UNEXPLAINED", CaseId(PickedSeq[lo][2]), u>>) /\ FALSE

=============================================================================
