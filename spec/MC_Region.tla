----------------------------- MODULE MC_Region -----------------------------
(***************************************************************************)
(* Bounded design check and generator for C08 (Resize) and C09 (Minimize / *)
(* Invert).  Mode "resize": regions of 1..MaxSegs segments of lengths      *)
(* 1..MaxLen, all forward ascending, all reverse descending, or mixed, x   *)
(* every modifier form with offsets in [-len-Slack, len+Slack].            *)
(* Mode "minimize": collections of 1..MaxRegs regions over [0,n].          *)
(***************************************************************************)
EXTENDS Region, Json, IOUtils, SequencesExt, CSV

CONSTANTS Mode, MaxSegs, MaxLen, Slack, N, MaxRegs, Batch, Stride, Offset

RECURSIVE SeqsOver(_, _)
SeqsOver(S, n) == IF n = 0 THEN {<<>>} ELSE {<<x>> \o r : x \in S, r \in SeqsOver(S, n - 1)}
LenTuples == UNION {SeqsOver(1..MaxLen, k) : k \in 1..MaxSegs}

\* lay segments of the given lengths out from position Slack+2, one gap apart
RECURSIVE Layout(_, _)
Layout(lens, pos) ==
  IF lens = <<>> THEN <<>> ELSE <<Seg(pos, pos + Head(lens))>> \o Layout(Tail(lens), pos + Head(lens) + 1)
FwdRegion(lens) == Layout(lens, Slack + 2)
RevSeqX(s) == [j \in 1..Len(s) |-> s[Len(s) + 1 - j]]
\* the same gene on the complement strand: segments reversed and flipped
RevRegion(lens) == LET f == FwdRegion(lens) IN [j \in 1..Len(f) |-> Seg(f[Len(f) + 1 - j].t, f[Len(f) + 1 - j].h)]
\* mixed: every second segment flipped in place
MixRegion(lens) == LET f == FwdRegion(lens) IN [j \in 1..Len(f) |-> IF j % 2 = 0 THEN Seg(f[j].t, f[j].h) ELSE f[j]]
AsRegion(ss) == IF Len(ss) = 1 THEN ss[1] ELSE Regs(ss)
\* nested: first two segments grouped
Nest(ss) == IF Len(ss) < 3 THEN AsRegion(ss) ELSE Regs(<<Regs(SubSeq(ss, 1, 2))>> \o SubSeq(ss, 3, Len(ss)))

ResizeRegions ==
  {AsRegion(FwdRegion(t)) : t \in LenTuples} \cup {AsRegion(RevRegion(t)) : t \in LenTuples}
  \cup {AsRegion(MixRegion(t)) : t \in {u \in LenTuples : Len(u) >= 2}}
  \cup {Nest(FwdRegion(t)) : t \in {u \in LenTuples : Len(u) >= 3}}
SeqLen == Slack + 2 + MaxSegs * (MaxLen + 1) + Slack + 2

ModsFor(n) ==
  LET R == (0 - n - Slack)..(n + Slack)
  IN {[k |-> "head", p |-> p] : p \in R} \cup {[k |-> "tail", p |-> p] : p \in R}
     \cup {[k |-> f, p |-> p, q |-> q] : f \in {"hh", "ht", "tt"}, p \in R, q \in R}

\* minimize: segments over [0,N], either orientation, optionally zero-length
MSegs == {Seg(h, t) : h \in 0..N, t \in 0..N} \ {Seg(h, h) : h \in 0..N}
MRegions == MSegs \cup {Regs(<<a, b>>) : a \in {Seg(0, 2), Seg(3, 1), Seg(N - 1, N), Seg(2, 3)}, b \in MSegs}
MColls == UNION {SeqsOver(MSegs, k) : k \in 1..MaxRegs}
          \cup {<<a, b>> : a \in MRegions, b \in MRegions}
          \cup {<<Seg(h, h)>> : h \in 0..N} \cup {<<Seg(h, h), s>> : h \in 0..N, s \in MSegs}

Items == IF Mode = "resize" THEN SetToSeq(ResizeRegions) ELSE SetToSeq(MColls)
NItems == Len(Items)
BatchSz == IF Mode = "resize" THEN 1 ELSE Batch
NBatches == (NItems + BatchSz - 1) \div BatchSz
PickedB == SelectSeq([j \in 1..NBatches |-> j], LAMBDA j : (j + (j \div Stride) + (j \div (Stride * Stride))) % Stride = Offset % Stride)

BatchJson(b) ==
  IF Mode = "resize"
  THEN LET r == Items[b] IN
       [id |-> "rz" \o ToString(b), fam |-> "resize", L |-> SeqLen, region |-> r, mods |-> SetToSeq(ModsFor(RLen(r)))]
  ELSE LET lo == (b - 1) * BatchSz
           n == IMn(BatchSz, NItems - lo)
       IN [id |-> "mn" \o ToString(b), fam |-> "minimize", n |-> N, colls |-> [j \in 1..n |-> Regs(Items[lo + j])]]

VARIABLES lo, hi, done
vars == <<lo, hi, done>>
Init == lo = 1 /\ hi = Len(PickedB) /\ done = FALSE
Split ==
  /\ lo < hi
  /\ LET mid == (lo + hi) \div 2 IN \/ (lo' = lo /\ hi' = mid) \/ (lo' = mid + 1 /\ hi' = hi)
  /\ done' = FALSE
Emit ==
  /\ lo = hi /\ ~done
  /\ IF "CASES" \in DOMAIN IOEnv THEN CSVWrite("%1$s", <<ToJson(BatchJson(PickedB[lo]))>>, IOEnv.CASES) ELSE TRUE
  /\ done' = TRUE /\ UNCHANGED <<lo, hi>>
Next == Split \/ Emit
Spec == Init /\ [][Next]_vars

DesignOK ==
  (lo = hi /\ ~done) =>
    LET bj == BatchJson(PickedB[lo])
        res == IF Mode = "resize"
               THEN UNION {{<<PrintMod(bj.mods[j]), v>> : v \in JudgeResize(bj.region, bj.mods[j], ResizeC(bj.region, bj.mods[j]))} : j \in 1..Len(bj.mods)}
               ELSE UNION {{<<j, v>> : v \in JudgeMinimize(bj.colls[j], MinimizeC(bj.colls[j]))
                                        \cup JudgeInvert(bj.colls[j], N, InvertLinearC(bj.colls[j], N), FALSE)
                                        \cup JudgeInvert(bj.colls[j], N, InvertCircularC(bj.colls[j], N), TRUE)} : j \in 1..Len(bj.colls)}
    IN IF res = {} THEN TRUE ELSE PrintT(<<"UNEXPLAINED", bj.id, (IF Mode = "resize" THEN bj.region ELSE bj.id), res>>) /\ FALSE
=============================================================================
