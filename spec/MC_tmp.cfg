SPECIFICATION Spec
CONSTANTS
  Mode = "fasta"
  MaxN = 300
  FullTo = 400
  Batch = 100
  Stride = 1
  Offset = 0

CHECK_DEADLOCK FALSE
