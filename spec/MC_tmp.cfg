SPECIFICATION Spec
CONSTANTS
  Mode = "scan"
  MaxSeq = 4
  MaxQ = 2
  Batch = 200
  Stride = 1
  Offset = 0
  Devs = {"RgPt"}

CHECK_DEADLOCK FALSE
