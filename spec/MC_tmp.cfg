SPECIFICATION Spec
CONSTANTS
  Mode = "select"
  L = 3
  MaxIns = 3
  Batch = 200
  Stride = 1
  Offset = 0
  Devs = {"RgPt", "BwRev", "BwOrigin", "WrapSlice", "RepairCp", "RepairJn"}

CHECK_DEADLOCK FALSE
