SPECIFICATION Spec
CONSTANTS
  Mode = "terms"
  L = 4
  Batch = 50
  Stride = 1
  Offset = 0
  MaxTok = 3
  Devs = {"RgPt", "BwRev", "BwOrigin", "WrapSlice"}
INVARIANT DesignOK
CHECK_DEADLOCK FALSE
