SPECIFICATION Spec
CONSTANTS
  Stride = 1
  Offset = 0
  Devs = {"RgPt", "BwRev", "BwOrigin", "WrapSlice", "RepairCp", "RepairJn"}
CHECK_DEADLOCK FALSE
