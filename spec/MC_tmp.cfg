SPECIFICATION Spec
CONSTANTS
  Ls = {4}
  Family = "reptab"
  OpKinds = {}
  Chunk = 40
  Stride = 1
  Offset = 0
  MaxGuest = 2
  PureLen = 1
  Devs = {"RgPt", "BwRev", "BwOrigin", "WrapSlice", "RepairCp", "RepairJn"}
INVARIANT DesignOK
CHECK_DEADLOCK FALSE
