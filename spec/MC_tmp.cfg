SPECIFICATION Spec
CONSTANTS
  Mode = "grammar"
  MutLen = 1
  MaxTok = 3
  Batch = 500
  Stride = 1
  Offset = 0
CHECK_DEADLOCK FALSE
