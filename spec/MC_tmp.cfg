SPECIFICATION GSpec
CONSTANTS
  NKeys = 3
  FailKeys = {3}
  HLen = 2
  Stride = 1
  Offset = 0

CHECK_DEADLOCK FALSE
