SPECIFICATION Spec
CONSTANTS
  Mode = "resize"
  MaxSegs = 3
  MaxLen = 2
  Slack = 2
  N = 5
  MaxRegs = 2
  Batch = 50
  Stride = 1
  Offset = 0
CHECK_DEADLOCK FALSE
