SPECIFICATION Spec
CONSTANTS
  Ls = {6}
  Family = "pure"
  OpKinds = {}
  Chunk = 40
  Stride = 1
  Offset = 0
  MaxGuest = 2
  PureLen = 1
  Devs = {"RgPt", "BwRev", "BwOrigin", "WrapSlice"}
CHECK_DEADLOCK FALSE
