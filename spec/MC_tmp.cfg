SPECIFICATION Spec
CONSTANTS
  Ls = {4}
  Family = "rot2"
  OpKinds = {}
  Chunk = 40
  Stride = 1
  Offset = 0
  MaxGuest = 2
  Devs = {"RgPt", "BwRev", "BwOrigin", "WrapSlice"}
INVARIANT DesignOK
CHECK_DEADLOCK FALSE
