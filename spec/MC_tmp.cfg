SPECIFICATION Spec
CONSTANTS
  Mode = "corpus"
  Y0 = 2000
  Y1 = 2000
  Batch = 100
  Stride = 1
  Offset = 0
  PipeLen = 2
CHECK_DEADLOCK FALSE
