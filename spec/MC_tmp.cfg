SPECIFICATION Spec
CONSTANT MaxBlocks = 3
INVARIANTS OpenSafe OpenComplete Unfinished EmitCase
CHECK_DEADLOCK FALSE
