------------------------------- MODULE Stream -------------------------------
(***************************************************************************)
(* The gts command line as a transformer of record streams (beyond the     *)
(* listed properties; DESIGN.md section 9).  A run of                      *)
(*      gts <cmd> <args>  <  in.gb  >  out.gb                               *)
(* maps the sequence of input records to a sequence of output records.     *)
(* Each command is specified on the abstract layer that the library specs  *)
(* already define, so the CLI is shown to REFINE the library semantics     *)
(* record by record:                                                       *)
(*   reverse / complement / repair   the library step on every record      *)
(*   join [-c]       one record = Concat of all inputs (circular with -c)  *)
(*   pick LIST       the records whose 1-based index LIST selects, in order *)
(*   sort [-r]       a permutation ordered by length (longest first; -r     *)
(*                   shortest first)                                        *)
(*   clear           only the source features stay                          *)
(*   select S.. [-v] [-s strand]   source features and those accepted       *)
(*   define K LOC [-q n=v]   sorted insertion of one new feature            *)
(*   annotate TABLE  sorted insertion of every feature of TABLE              *)
(*   search -e @Q [-k K] [-q n=v] [--no-complement]   one feature per        *)
(*                   (overlapping, case-insensitive) occurrence of Q, and    *)
(*                   one complement(...) feature per occurrence of Q on the  *)
(*                   reverse strand                                          *)
(*   length          one line per record: its length                        *)
(* Everything a command does not name (residues, topology, references,     *)
(* features it does not touch) must come out as it went in.                 *)
(***************************************************************************)
EXTENDS Cli

\* --------------------------------------------------------------- utilities
RestSame(a, b) == a.res = b.res /\ a.topo = b.topo /\ a.refs = b.refs /\ a.region = b.region
FeatSame(x, y) == x.key = y.key /\ x.label = y.label /\ x.loc = y.loc /\ x.props = y.props
FeatsSame(xs, ys) == Len(xs) = Len(ys) /\ \A j \in 1..Len(xs) : FeatSame(xs[j], ys[j])

\* one library step on one record, judged and classified by the workspace machine
StepVerdicts(op, srcs, O) ==
  LET RECURSIVE Load(_, _)
      Load(ws, j) == IF j > Len(srcs) THEN ws
                     ELSE LET s == StepInit(ws, "r" \o ToString(j), srcs[j], FALSE)
                          IN Load([recs |-> s.recs, nextId |-> s.nextId, taint |-> s.taint], j + 1)
      ws0 == Load(EmptyWS, 1)
      e == IF op = "concat"
           THEN [op |-> "concat", srcs |-> [j \in 1..Len(srcs) |-> "r" \o ToString(j)], dst |-> "o", panic |-> "", st |-> O]
           ELSE [op |-> op, src |-> "r1", dst |-> "o", panic |-> "", st |-> O]
      st == StepOp(ws0, e, FALSE)
  IN {<<v[1], v[2], LET ds == Explains(ws0, e, v) IN IF ds = {} THEN "-" ELSE "dev:" \o (CHOOSE d \in ds : TRUE)>> : v \in {x \in st.vs : x[1] # "order"}}

W(rule, lab) == {<<rule, lab, "-">>}

\* ------------------------------------------------------------------ pick
\* LIST = blocks: [k |-> "one", n] | [k |-> "from", n] (N-) | [k |-> "upto", n] (-N) | [k |-> "range", m, n]
BlockPicks(b, i) ==
  CASE b.k = "one" -> i = b.n
    [] b.k = "from" -> i >= b.n
    [] b.k = "upto" -> i <= b.n
    [] b.k = "range" -> b.m <= i /\ i <= b.n
Picks(list, i) == \E j \in 1..Len(list) : BlockPicks(list[j], i)
PrintBlock(b) ==
  CASE b.k = "one" -> ToString(b.n)
    [] b.k = "from" -> ToString(b.n) \o "-"
    [] b.k = "upto" -> "-" \o ToString(b.n)
    [] b.k = "range" -> ToString(b.m) \o "-" \o ToString(b.n)
PrintList(list) == JoinStr([j \in 1..Len(list) |-> PrintBlock(list[j])], ",")

\* ---------------------------------------------------------------- select
\* selector: [key, clauses]; clause [name, val, bare]: some value of qualifier
\* name equals val (the generator's values are pairwise non-substrings, so
\* "the regexp val matches" and "equals val" coincide), bare: name is present
PropNames(f) == {f.props[j][1] : j \in 1..Len(f.props)}
HasVal(f, n, v) == \E j \in 1..Len(f.props) : f.props[j][1] = n /\ \E q \in 2..Len(f.props[j]) : f.props[j][q] = v
ClauseHolds(c, f) == IF c.bare THEN c.name \in PropNames(f) ELSE HasVal(f, c.name, c.val)
SelHolds(s, f) == (s.key = "" \/ f.key = s.key) /\ \A j \in 1..Len(s.clauses) : ClauseHolds(s.clauses[j], f)
PrintSelector(s) ==
  s.key \o JoinStr([j \in 1..Len(s.clauses) |-> "/" \o s.clauses[j].name \o (IF s.clauses[j].bare THEN "" ELSE "=" \o s.clauses[j].val)], "")
OnStrand(f, strand) ==
  LET d == Den(f.loc) IN
  CASE strand = "forward" -> \A j \in 1..Len(d) : d[j][2] = 1
    [] strand = "reverse" -> \A j \in 1..Len(d) : d[j][2] = -1
    [] OTHER -> TRUE
Selected(f, sels, invert, strand) ==
  LET hit == \E j \in 1..Len(sels) : SelHolds(sels[j], f)
  IN (f.key = "source" \/ (IF invert THEN ~hit ELSE hit)) /\ OnStrand(f, strand)

\* ------------------------------------------------------ added features
\* sorted insertion of the features adds into the table of record a, giving b
AsTuple(f) == <<f.key, f.label, f.loc, f.props>>
AddsRule(a, b, adds, tag) ==
  LET inb == [q \in 1..(Len(a.feats) + Len(adds)) |-> IF q <= Len(a.feats) THEN AsTuple(a.feats[q]) ELSE AsTuple(adds[q - Len(a.feats)])]
      outb == [q \in 1..Len(b.feats) |-> AsTuple(b.feats[q])]
      bag(xs, x) == Cardinality({q \in 1..Len(xs) : xs[q] = x})
      new == {AsTuple(adds[q]) : q \in 1..Len(adds)}
      O == Proj(b, [q \in 1..Len(b.res) |-> q])
      S == Proj(a, [q \in 1..Len(a.res) |-> q])
  IN (IF RestSame(a, b) THEN {} ELSE W("rest-changed", tag))
     \cup (IF Len(inb) # Len(outb) \/ \E q \in 1..Len(inb) : bag(inb, inb[q]) # bag(outb, inb[q]) THEN W("added-multiset", tag) ELSE {})
     \cup (IF OrderOK(S) = {} /\ OrderOK(O) # {} THEN W("added-order", tag) ELSE {})
     \* the old features keep their relative order
     \cup (IF FeatsSame(SelectSeq(b.feats, LAMBDA f : AsTuple(f) \notin new), SelectSeq(a.feats, LAMBDA f : AsTuple(f) \notin new))
          THEN {} ELSE W("added-reordered", tag))

\* exact, case-insensitive occurrences of q (ASCII codes) in res, 0-based starts
Low(c) == IF c >= 65 /\ c <= 90 THEN c + 32 ELSE c
FwdHits(res, q) == {i \in 0..(Len(res) - Len(q)) : \A j \in 1..Len(q) : Low(res[i + j]) = Low(q[j])}
\* occurrences on the reverse strand: q read along the complement of res[i..i+n) backwards
RevHits(res, q) == {i \in 0..(Len(res) - Len(q)) : \A j \in 1..Len(q) : Low(CompOf(res[i + Len(q) + 1 - j])) = Low(q[j])}
SearchAdds(res, sem) ==
  LET n == Len(sem.query)
      mk(t) == [key |-> sem.key, label |-> "", loc |-> t, props |-> sem.props]
      starts == [i \in 1..(Len(res) - n + 1) |-> i - 1]
      fw == IF n = 0 THEN <<>> ELSE SelectSeq(starts, LAMBDA i : i \in FwdHits(res, sem.query))
      rv == IF n = 0 \/ sem.nocomp THEN <<>> ELSE SelectSeq(starts, LAMBDA i : i \in RevHits(res, sem.query))
  IN [j \in 1..Len(fw) |-> mk(Rg(fw[j], fw[j] + n, FALSE, FALSE))] \o [j \in 1..Len(rv) |-> mk(Cp(Rg(rv[j], rv[j] + n, FALSE, FALSE)))]

\* ------------------------------------------------------------- judgement
\* e: [cmd, sem (structured arguments), ins, outs, lines, status]
JudgeStream(e) ==
  LET ins == e.ins  outs == e.outs  n == Len(ins)  m == Len(outs) IN
  IF e.cmd = "join" /\ n = 0 THEN {}   \* nothing to join: not specified (gts reports an error)
  ELSE IF e.status # 0 THEN W("failed", "-")
  ELSE CASE e.cmd \in {"reverse", "complement", "repair"} ->
         IF m # n THEN W("out-count", "-")
         ELSE UNION {{<<v[1], ToString(j) \o ":" \o v[2], v[3]>> : v \in StepVerdicts(e.cmd, <<ins[j]>>, outs[j])} : j \in 1..n}
    [] e.cmd = "join" ->
         IF m # 1 THEN W("out-count", "-")
         ELSE {v \in StepVerdicts("concat", ins, outs[1]) : ~(e.sem.circular /\ v[1] = "topo")}
              \cup (IF e.sem.circular /\ outs[1].topo \notin {"circular", "na"} THEN W("join-circular", "-") ELSE {})
    [] e.cmd = "pick" ->
         LET want == SelectSeq([j \in 1..n |-> j], LAMBDA j : Picks(e.sem.list, j)) IN
         IF m # Len(want) THEN W("pick-count", "-")
         ELSE UNION {IF SameObs(outs[j], ins[want[j]]) THEN {} ELSE W("pick-record", ToString(j)) : j \in 1..m}
    [] e.cmd = "sort" ->
         LET bag(xs, x) == Cardinality({j \in 1..Len(xs) : SameObs(xs[j], x)})
             lens == [j \in 1..m |-> Len(outs[j].res)]
         IN (IF m # n \/ \E j \in 1..n : bag(ins, ins[j]) # bag(outs, ins[j]) THEN W("sort-multiset", "-") ELSE {})
            \cup (IF \E j \in 1..(m - 1) : (IF e.sem.reverse THEN lens[j] > lens[j + 1] ELSE lens[j] < lens[j + 1])
                  THEN W("sort-order", "-") ELSE {})
    [] e.cmd = "clear" ->
         IF m # n THEN W("out-count", "-")
         ELSE UNION {(IF RestSame(ins[j], outs[j]) THEN {} ELSE W("rest-changed", ToString(j)))
                     \cup (IF FeatsSame(outs[j].feats, SelectSeq(ins[j].feats, LAMBDA f : f.key = "source")) THEN {} ELSE W("clear-features", ToString(j)))
                    : j \in 1..n}
    [] e.cmd = "select" ->
         IF m # n THEN W("out-count", "-")
         ELSE UNION {LET judged(f) == e.sem.strand = "both" \/ Den(f.loc) # <<>>
                         want == SelectSeq(ins[j].feats, LAMBDA f : judged(f) /\ Selected(f, e.sem.sels, e.sem.invert, e.sem.strand))
                         got == SelectSeq(outs[j].feats, LAMBDA f : judged(f))
                     IN (IF RestSame(ins[j], outs[j]) THEN {} ELSE W("rest-changed", ToString(j)))
                        \cup (IF FeatsSame(got, want) THEN {} ELSE W("select-features", ToString(j)))
                    : j \in 1..n}
    [] e.cmd \in {"define", "annotate"} ->
         IF m # n THEN W("out-count", "-")
         ELSE UNION {AddsRule(ins[j], outs[j], e.sem.adds, ToString(j)) : j \in 1..n}
    [] e.cmd = "search" ->
         IF m # n THEN W("out-count", "-")
         ELSE UNION {AddsRule(ins[j], outs[j], SearchAdds(ins[j].res, e.sem), ToString(j)) : j \in 1..n}
    \* gts split L | gts join | gts repair on a record whose features are forward, contiguous and unique in key
    \* and qualifiers: the record comes back as it went in
    [] e.cmd = "split-join-repair" ->
         IF n # 1 THEN {} ELSE IF m # 1 THEN W("out-count", "-")
         ELSE (IF outs[1].res = ins[1].res THEN {} ELSE W("pipeline-residues", "-"))
              \cup (IF FeatsSame(outs[1].feats, ins[1].feats) THEN {} ELSE W("pipeline-table-not-restored", "-"))
    [] e.cmd = "length" ->
         IF e.lines # [j \in 1..n |-> ToString(Len(ins[j].res))] THEN W("length-lines", "-") ELSE {}
    [] OTHER -> W("unknown-command", "-")
=============================================================================
