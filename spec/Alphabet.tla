------------------------------ MODULE Alphabet ------------------------------
(***************************************************************************)
(* C18: IUPAC semantics.  Letters are ASCII codes.  The complement and     *)
(* transcription tables are DERIVED from the base sets, not copied:        *)
(*   Comp(l) = the letter whose base set is the complement image of l's.   *)
(* Search = all (overlapping) case-insensitive occurrences, ascending.     *)
(* Match  = leftmost non-overlapping scan of segments in which every       *)
(*          sequence letter's base set is contained in the query letter's. *)
(***************************************************************************)
EXTENDS Integers, Sequences, FiniteSets, TLC

\* bases: 1=A 2=C 3=G 4=T   (U is read as T)
Up(c) == IF c >= 97 /\ c <= 122 THEN c - 32 ELSE c
IsLower(c) == c >= 97 /\ c <= 122
BasesU(c) ==   \* c upper-case code
  CASE c = 65 -> {1}         \* A
    [] c = 67 -> {2}         \* C
    [] c = 71 -> {3}         \* G
    [] c = 84 -> {4}         \* T
    [] c = 85 -> {4}         \* U
    [] c = 82 -> {1, 3}      \* R
    [] c = 89 -> {2, 4}      \* Y
    [] c = 75 -> {3, 4}      \* K
    [] c = 77 -> {1, 2}      \* M
    [] c = 83 -> {2, 3}      \* S
    [] c = 87 -> {1, 4}      \* W
    [] c = 66 -> {2, 3, 4}   \* B
    [] c = 68 -> {1, 3, 4}   \* D
    [] c = 72 -> {1, 2, 4}   \* H
    [] c = 86 -> {1, 2, 3}   \* V
    [] c = 78 -> {1, 2, 3, 4} \* N
    [] OTHER  -> {}
Bases(c) == BasesU(Up(c))
IsLetter(c) == Bases(c) # {}
Letters == {65, 67, 71, 84, 85, 82, 89, 75, 77, 83, 87, 66, 68, 72, 86, 78}

CompBase(b) == 5 - b
\* the canonical (DNA) letter of a base set
LetterOf(S) == CHOOSE c \in Letters \ {85} : BasesU(c) = S
CompDerived(c) ==
  IF ~IsLetter(c) \/ Up(c) \in {83, 87, 78} THEN c    \* S, W, N are their own complements; gts leaves them (and non-letters) unchanged
  ELSE LET r == LetterOf({CompBase(b) : b \in Bases(c)}) IN IF IsLower(c) THEN r + 32 ELSE r
TransDerived(c) ==
  LET r == CompDerived(c) IN IF Up(c) = 65 THEN (IF IsLower(c) THEN 117 ELSE 85) ELSE r

\* does query letter q match sequence letter s
LetterMatch(q, s) ==
  IF IsLetter(q) THEN IsLetter(s) /\ Bases(s) \subseteq Bases(q)
  ELSE Up(q) = Up(s)      \* a byte outside the alphabet matches only itself (case-insensitively)

SegMatch(seq, i, query) ==  \* 0-based start i
  /\ i + Len(query) <= Len(seq)
  /\ \A j \in 1..Len(query) : LetterMatch(query[j], seq[i + j])
SegEqual(seq, i, query) ==
  /\ i + Len(query) <= Len(seq)
  /\ \A j \in 1..Len(query) : Up(query[j]) = Up(seq[i + j])

\* all occurrences, ascending (segments as <<head, tail>>)
RECURSIVE AllFrom(_, _, _)
AllFrom(seq, i, query) ==
  IF i + Len(query) > Len(seq) THEN <<>>
  ELSE (IF SegEqual(seq, i, query) THEN << <<i, i + Len(query)>> >> ELSE <<>>) \o AllFrom(seq, i + 1, query)
SearchAll(seq, query) == IF Len(seq) = 0 \/ Len(query) = 0 THEN <<>> ELSE AllFrom(seq, 0, query)

\* leftmost non-overlapping scan
RECURSIVE ScanFrom(_, _, _)
ScanFrom(seq, i, query) ==
  IF i + Len(query) > Len(seq) THEN <<>>
  ELSE IF SegMatch(seq, i, query) THEN << <<i, i + Len(query)>> >> \o ScanFrom(seq, i + Len(query), query)
  ELSE ScanFrom(seq, i + 1, query)
MatchScan(seq, query) == IF Len(seq) = 0 \/ Len(query) = 0 THEN <<>> ELSE ScanFrom(seq, 0, query)

\* calculus: the character classes of nucleotide.go Match (k is wrong, pinned by TestMatch)
ClassC(q) ==  \* set of lower-case codes the class of query letter q accepts; {} = literal
  LET c == IF IsLower(q) THEN q ELSE IF q >= 65 /\ q <= 90 THEN q + 32 ELSE q IN
  CASE c \in {116, 117} -> {116, 117}
    [] c = 114 -> {97, 103, 114}
    [] c = 121 -> {99, 116, 117, 121}
    [] c = 107 -> {103, 116, 117, 121}              \* should be g t u k
    [] c = 109 -> {97, 99, 109}
    [] c = 115 -> {99, 103, 115}
    [] c = 119 -> {97, 116, 117, 119}
    [] c = 98  -> {99, 103, 116, 117, 121, 107, 115, 98}
    [] c = 100 -> {97, 103, 116, 117, 114, 107, 119, 100}
    [] c = 104 -> {97, 99, 116, 117, 121, 109, 119, 104}
    [] c = 118 -> {97, 99, 103, 114, 109, 115, 118}
    [] OTHER -> {}
LetterMatchC(q, s) ==
  LET lq == IF q >= 65 /\ q <= 90 THEN q + 32 ELSE q
      ls == IF s >= 65 /\ s <= 90 THEN s + 32 ELSE s
  IN IF lq = 110 THEN TRUE ELSE IF ClassC(q) # {} THEN ls \in ClassC(q) ELSE lq = ls

=============================================================================
