-------------------------------- MODULE Props --------------------------------
(* The Props state machine (operators and commentary in PropsOps.tla). *)
EXTENDS PropsOps

CONSTANTS Keys, Vals, MaxOps, MaxVs

VARIABLES st, hist
vars == <<st, hist>>
VsSeqs == UNION {[1..n -> Vals] : n \in 0..MaxVs}
Init == st = [p |-> <<>>, c |-> <<>>, cl |-> FALSE] /\ hist = <<>>
Handles == IF st.cl THEN {"p", "c"} ELSE {"p"}
Step(o) == st' = ApplyOp(st, o) /\ hist' = Append(hist, o)
Next ==
  /\ Len(hist) < MaxOps
  /\ \/ \E h \in Handles, k \in Keys, vs \in VsSeqs : Step([op |-> "set", h |-> h, k |-> k, vs |-> vs])
     \/ \E h \in Handles, k \in Keys, vs \in VsSeqs : Step([op |-> "add", h |-> h, k |-> k, vs |-> vs])
     \/ \E h \in Handles, k \in Keys : Step([op |-> "del", h |-> h, k |-> k, vs |-> <<>>])
     \/ (~st.cl /\ Step([op |-> "clone", h |-> "p", k |-> "", vs |-> <<>>]))
Spec == Init /\ [][Next]_vars

\* -------------------------------------------------------------- invariants
Rows(h) == IF h = "c" THEN st.c ELSE st.p
\* built through Set / Add / Del only, a key never occurs in two rows
NoDupKeys == \A h \in {"p", "c"} : \A i, j \in 1..Len(Rows(h)) : Rows(h)[i][1] = Rows(h)[j][1] => i = j
\* then Items lists every row's values exactly once, in row order
ItemsAreRows == \A h \in {"p", "c"} : ItemsOf(Rows(h)) = Flat([i \in 1..Len(Rows(h)) |-> [j \in 1..(Len(Rows(h)[i]) - 1) |-> <<Rows(h)[i][1], Rows(h)[i][j + 1]>>]])
\* Set then Get returns what was set; Del then Has is false (as action properties)
SetGet == [][\A k \in Keys : (hist' # hist /\ hist'[Len(hist')].op = "set" /\ hist'[Len(hist')].k = k)
               => GetOf(IF hist'[Len(hist')].h = "c" THEN st'.c ELSE st'.p, k) = hist'[Len(hist')].vs]_vars
DelGone == [][\A k \in Keys : (hist' # hist /\ hist'[Len(hist')].op = "del" /\ hist'[Len(hist')].k = k)
               => ~HasKey(IF hist'[Len(hist')].h = "c" THEN st'.c ELSE st'.p, k)]_vars
\* the other handle never changes
Isolation == [][(hist' # hist /\ hist'[Len(hist')].op # "clone")
               => IF hist'[Len(hist')].h = "c" THEN st'.p = st.p ELSE st'.c = st.c]_vars
=============================================================================
