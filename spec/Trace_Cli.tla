------------------------------ MODULE Trace_Cli ------------------------------
(* Trace validation for C15: each event is one run of the gts binary on a    *)
(* generated record; the parsed input and the parsed output records are      *)
(* projected to residue identities and judged by Cli.tla.                    *)
EXTENDS Cli, Json, IOUtils, SequencesExt

Trace == ndJsonDeserialize(IOEnv.TRACE)
N == Len(Trace)
VARIABLES l, verdicts, njudged
vars == <<l, verdicts, njudged>>
TInit == l = 1 /\ verdicts = {} /\ njudged = 0
Tag(e, vs) == {<<l, e.case, e.cmd \o " " \o e.locstr, v[1], v[2]>> : v \in vs}

\* identities of output residues, recovered from the (unique) input bytes
IdsFromBytes(S, bytes) ==
  [j \in 1..Len(bytes) |-> LET ps == {q \in 1..Len(S.byt) : S.byt[q] = bytes[j]} IN IF ps = {} THEN 0 - j ELSE S.ids[CHOOSE q \in ps : TRUE]]

Judge(e) ==
  LET S == Proj(e.pre, [j \in 1..Len(e.pre.res) |-> j])
      L == Len(S.ids)
      rs == Located(e.loc, e.pre)
      fasta == \E j \in 1..Len(e.opts) : e.opts[j] = "fasta"
      erase == e.cmd = "delete" /\ \E j \in 1..Len(e.opts) : e.opts[j] = "-e"
      embed == e.cmd \in {"insert", "infix"} /\ \E j \in 1..Len(e.opts) : e.opts[j] = "-e"
      invert == e.cmd = "extract" /\ \E j \in 1..Len(e.opts) : e.opts[j] = "-v"
      nouts == Len(e.outs)
      noFeat(vs) == IF fasta THEN {v \in vs : v[1] = "res"} ELSE vs
  IN IF ~InRange(rs, L) THEN {}          \* the quantifier covers modifiers that stay in range
     ELSE IF e.status # 0 THEN V("failed", "-")
     ELSE CASE e.cmd = "delete" ->
               IF nouts # 1 THEN V("out-count", "-")
               ELSE LET P == CoveredPos(rs) \cap (0..(L - 1))
                        ids2 == SelectSeq(S.ids, LAMBDA x : (x - 1) \notin P)
                    IN IF Len(e.outs[1].res) # Len(ids2) THEN V("res", "-")
                       ELSE noFeat(JudgeCmdDelete(S, Proj(e.outs[1], ids2), P, erase))
            \* gts infix: the same placement rule, the guest read from standard input and the host from a file
            [] e.cmd \in {"insert", "infix"} ->
               IF nouts # 1 THEN V("out-count", "-")
               ELSE LET sites == [j \in 1..Len(rs) |-> HeadOf(rs[j])]
                        ids2 == InsertIds(S, sites, Len(e.guest))
                    IN IF Len(e.outs[1].res) # Len(ids2) THEN V("res", "-")
                       ELSE noFeat(JudgeCmdInsert(S, Proj(e.outs[1], ids2), sites, e.guest, embed))
            [] e.cmd = "rotate" ->
               IF nouts # 1 THEN V("out-count", "-")
               ELSE LET n == IF Len(rs) = 0 THEN 0 ELSE 0 - HeadOf(rs[1])
                        O == Proj(e.outs[1], Rot(S.ids, n))
                    IN noFeat({v \in JudgeRotate(S, O, n) : v[1] # "order"}) \cup If(~fasta /\ O.topo # "circular", V("topo", "-"))
            [] e.cmd = "split" ->
               LET Os == [j \in 1..nouts |-> Proj(e.outs[j], IdsFromBytes(S, e.outs[j].res))]
               IN IF Len(rs) = 0 THEN If(nouts # 1 \/ (nouts = 1 /\ e.outs[1].res # e.pre.res), V("res", "-"))
                  ELSE noFeat(JudgeCmdSplit(S, Os, e.pre.topo = "circular"))
            [] e.cmd = "extract" ->
               JudgeCmdExtract(S, [j \in 1..nouts |-> e.outs[j].res], rs, invert)
            [] OTHER -> V("unknown-command", "-")

\* every record of a stream is treated like the first: the input record given twice yields the outputs twice
\* (a circular split re-origins every record alike; rotate, delete, insert, extract act per record)
Twice(e) ==
  IF e.cmd = "infix" \/ e.status # 0 THEN {}
  ELSE IF e.status2 # 0 THEN V("second-record-failed", "-")
  ELSE LET n == Len(e.outs) IN
       IF Len(e.outs2) # 2 * n THEN V("second-record-count", "-")
       ELSE UNION {If(~SameObs(e.outs2[j], e.outs[j]) \/ ~SameObs(e.outs2[n + j], e.outs[j]), V("second-record", ToString(j))) : j \in 1..n}

EvCli ==
  /\ Trace[l].ev = "cli"
  /\ LET e == Trace[l] IN
     /\ verdicts' = verdicts \cup Tag(e, IF e.parseerr # "" THEN V("output-unreadable", "-") ELSE Judge(e) \cup Twice(e))
     /\ njudged' = njudged + 1

Consume == l <= N /\ EvCli /\ l' = l + 1
Finish ==
  /\ l = N + 1
  /\ LET vseq == SetToSeq(verdicts) IN
     ndJsonSerialize(IOEnv.VERDICTS,
        <<[consumed |-> l - 1, ops |-> njudged, nverdicts |-> Cardinality(verdicts)]>>
        \o [j \in 1..Len(vseq) |-> [line |-> vseq[j][1], case |-> vseq[j][2], op |-> vseq[j][3],
                                     rule |-> vseq[j][4], label |-> vseq[j][5], calc |-> "-"]])
  /\ l' = l + 1 /\ UNCHANGED <<verdicts, njudged>>
TNext == Consume \/ Finish
TSpec == TInit /\ [][TNext]_vars
TraceAccepted == TLCGet("stats").diameter = N + 2
=============================================================================
