----------------------------- MODULE MC_CliPipe -----------------------------
(* Generator for the command-line clause of C01 ("gts CLI stdout piped into  *)
(* gts CLI stdin"): every pipeline  gts A | gts B  over the corpus inputs,    *)
(* A any record-producing command, B a command that only has to read its     *)
(* input.  Closure: what A writes, B reads; what B writes, seqio reads back  *)
(* and re-writes byte for byte.                                               *)
EXTENDS Integers, Sequences, FiniteSets, TLC, Json, IOUtils, SequencesExt, CSV
CONSTANTS Stride, Offset

Inputs == <<"phix", "part", "pbat", "two", "ecoli">>
First == << <<"reverse">>, <<"complement">>, <<"rotate", "^+7">>, <<"delete", "3..20">>, <<"delete", "-e", "3..20">>,
            <<"insert", "^+5", "@acgtacgt">>, <<"insert", "-e", "^+5", "@acgtacgt">>, <<"extract", "10..80">>, <<"extract", "CDS">>,
            <<"split", "^+50">>, <<"join">>, <<"join", "-c">>, <<"sort">>, <<"clear">>, <<"repair">>,
            <<"define", "-q", "note=a note with several words that is long enough to be wrapped over two lines of text", "gene", "5..30">>,
            <<"define", "misc_feature", "complement(join(2..5,8..30))">>, <<"select", "CDS">>, <<"select", "-v", "gene">>,
            <<"search", "-e", "@atgc">>, <<"search", "@rtg">>, <<"pick", "1">>, <<"annotate", "{file:table2}">> >>
Second == << <<"reverse">>, <<"complement">>, <<"clear">>, <<"repair">>, <<"sort">>, <<"join">>, <<"pick", "1">>, <<"select", "CDS">> >>
All == SetToSeq({<<i, a, b>> : i \in 1..Len(Inputs), a \in 1..Len(First), b \in 1..Len(Second)})
Picked == SelectSeq([j \in 1..Len(All) |-> j], LAMBDA j : (j + (j \div Stride) + (j \div (Stride * Stride))) % Stride = Offset % Stride)
CaseJson(j) ==
  LET x == All[j] IN
  [id |-> "pp" \o ToString(j), fam |-> "clipipe", input |-> Inputs[x[1]],
   first |-> [cmd |-> First[x[2]][1], args |-> Tail(First[x[2]])], second |-> [cmd |-> Second[x[3]][1], args |-> Tail(Second[x[3]])]]

VARIABLES lo, hi, done
vars == <<lo, hi, done>>
Init == lo = 1 /\ hi = Len(Picked) /\ done = FALSE
Split ==
  /\ lo < hi
  /\ LET mid == (lo + hi) \div 2 IN \/ (lo' = lo /\ hi' = mid) \/ (lo' = mid + 1 /\ hi' = hi)
  /\ done' = FALSE
Emit ==
  /\ lo = hi /\ ~done
  /\ IF "CASES" \in DOMAIN IOEnv THEN CSVWrite("%1$s", <<ToJson(CaseJson(Picked[lo]))>>, IOEnv.CASES) ELSE TRUE
  /\ done' = TRUE /\ UNCHANGED <<lo, hi>>
Next == Split \/ Emit
Spec == Init /\ [][Next]_vars
=============================================================================
