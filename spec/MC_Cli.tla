------------------------------- MODULE MC_Cli -------------------------------
(* Generator for C15: records x locators x commands x options.  (The       *)
(* library-level composition is design-checked by MC_Seq / MC_Region; here *)
(* TLC enumerates the command-level configurations.)                        *)
EXTENDS Cli, Json, IOUtils, SequencesExt, CSV
CONSTANTS Stride, Offset,
          CmdSet,     \* the commands to drive (a property check drives the commands its statement names)
          FastaOnly   \* only the -F fasta variants

F(key, lab, t) == [key |-> key, label |-> lab, loc |-> t, built |-> TRUE]
Tables == <<
  \* overlapping, nested, unsorted, both strands
  << F("source", "s", Rg(0, 10, FALSE, FALSE)), F("gene", "a", Rg(1, 4, FALSE, FALSE)), F("gene", "d", Rg(6, 9, FALSE, FALSE)),
     F("gene", "b", Cp(Rg(3, 7, FALSE, FALSE))), F("CDS", "c", Jn(<<Rg(0, 2, FALSE, FALSE), Rg(5, 8, FALSE, FALSE)>>)),
     F("misc_feature", "e", Pt(9)) >>,
  \* duplicates of the same region, partial ends, a site
  << F("source", "s", Rg(0, 10, FALSE, FALSE)), F("gene", "a", Rg(2, 5, TRUE, FALSE)), F("gene", "b", Rg(2, 5, FALSE, TRUE)),
     F("CDS", "c", Cp(Jn(<<Rg(1, 3, FALSE, FALSE), Rg(6, 9, FALSE, FALSE)>>))), F("misc_feature", "e", Bw(5)),
     F("gene", "d", Rg(7, 10, FALSE, FALSE)) >>,
  \* features touching both ends
  << F("source", "s", Rg(0, 10, FALSE, FALSE)), F("gene", "a", Rg(0, 3, FALSE, FALSE)), F("gene", "b", Cp(Rg(7, 10, FALSE, FALSE))),
     F("CDS", "c", Rg(4, 6, FALSE, FALSE)), F("misc_feature", "e", Jn(<<Pt(0), Pt(9)>>)) >>,
  \* isoforms: same 5' end, 3' end and total length, different inner boundaries; exact duplicates
  << F("source", "s", Rg(0, 10, FALSE, FALSE)), F("gene", "a", Jn(<<Rg(0, 3, FALSE, FALSE), Rg(6, 10, FALSE, FALSE)>>)),
     F("gene", "b", Jn(<<Rg(0, 4, FALSE, FALSE), Rg(7, 10, FALSE, FALSE)>>)), F("gene", "d", Jn(<<Rg(0, 3, FALSE, FALSE), Rg(6, 10, FALSE, FALSE)>>)),
     F("CDS", "c", Cp(Jn(<<Rg(1, 3, FALSE, FALSE), Rg(5, 8, FALSE, FALSE)>>))), F("CDS", "f", Cp(Jn(<<Rg(1, 4, FALSE, FALSE), Rg(6, 8, FALSE, FALSE)>>))),
     F("misc_feature", "e", Rg(4, 5, FALSE, FALSE)) >>
>>
Topos == <<"linear", "circular">>

None == [k |-> "none"]
Mods == {None, [k |-> "head", p |-> 0], [k |-> "tail", p |-> 0], [k |-> "hh", p |-> 0, q |-> 2], [k |-> "ht", p |-> 1, q |-> -1],
         [k |-> "tt", p |-> -2, q |-> 0], [k |-> "head", p |-> 1],
         \* offsets that equal the length of the first / last segment of the joined features
         [k |-> "head", p |-> 2], [k |-> "head", p |-> 3], [k |-> "tail", p |-> -3], [k |-> "tail", p |-> -2], [k |-> "hh", p |-> 2, q |-> 3], [k |-> "tt", p |-> -3, q |-> -1]}
Specs == {[k |-> "sel", key |-> k] : k \in {"gene", "CDS", "misc_feature", "source", "nomatch"}}
         \cup {[k |-> "loc", t |-> Pt(3)], [k |-> "loc", t |-> Rg(2, 6, FALSE, FALSE)], [k |-> "loc", t |-> Cp(Rg(2, 6, FALSE, FALSE))], [k |-> "loc", t |-> Cp(Pt(4))], [k |-> "all"]}
Locators == ({[x |-> x, m |-> m] : x \in Specs, m \in Mods} \ {[x |-> [k |-> "all"], m |-> None]})
            \cup {[x |-> [k |-> "mod", m |-> m], m |-> None] : m \in {[k |-> "head", p |-> 3], [k |-> "hh", p |-> 2, q |-> 5], [k |-> "ht", p |-> 2, q |-> -2], [k |-> "tail", p |-> -1]}}
CmdsAll == { <<"delete", <<>>>>, <<"delete", <<"-e">>>>, <<"insert", <<>>>>, <<"insert", <<"-e">>>>, <<"infix", <<>>>>, <<"infix", <<"-e">>>>, <<"split", <<>>>>, <<"rotate", <<>>>>,
          <<"extract", <<>>>>, <<"extract", <<"-v">>>>, <<"delete", <<"-F", "fasta">>>>, <<"extract", <<"-F", "fasta">>>>, <<"split", <<"-F", "fasta">>>>, <<"rotate", <<"-F", "fasta">>>>, <<"insert", <<"-F", "fasta">>>> }
IsFasta(c) == \E j \in 1..Len(c[2]) : c[2][j] = "fasta"
Cmds == {c \in CmdsAll : c[1] \in CmdSet /\ (~FastaOnly \/ IsFasta(c))}

All == SetToSeq({<<ti, tp, lc, cm>> : ti \in 1..Len(Tables), tp \in 1..2, lc \in Locators, cm \in Cmds})
Picked == SelectSeq([j \in 1..Len(All) |-> j], LAMBDA j : (j + (j \div Stride) + (j \div (Stride * Stride))) % Stride = Offset % Stride)

CaseJson(j) ==
  LET x == All[j] IN
  [id |-> "m" \o ToString(j), multisite |-> TRUE,
   rec |-> [name |-> "r0", res |-> [q \in 1..10 |-> 96 + q], topo |-> Topos[x[2]], kind |-> "gb", feats |-> Tables[x[1]]],
   cmd |-> x[4][1], opts |-> x[4][2], loc |-> x[3], locstr |-> PrintLocator(x[3]), guest |-> <<65, 67>>]

VARIABLES lo, hi, done
vars == <<lo, hi, done>>
Init == lo = 1 /\ hi = Len(Picked) /\ done = FALSE
Split ==
  /\ lo < hi
  /\ LET mid == (lo + hi) \div 2 IN \/ (lo' = lo /\ hi' = mid) \/ (lo' = mid + 1 /\ hi' = hi)
  /\ done' = FALSE
Emit ==
  /\ lo = hi /\ ~done
  /\ IF "CASES" \in DOMAIN IOEnv THEN CSVWrite("%1$s", <<ToJson(CaseJson(Picked[lo]))>>, IOEnv.CASES) ELSE TRUE
  /\ done' = TRUE /\ UNCHANGED <<lo, hi>>
Next == Split \/ Emit
Spec == Init /\ [][Next]_vars
=============================================================================
