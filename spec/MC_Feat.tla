------------------------------ MODULE MC_Feat ------------------------------
(***************************************************************************)
(* Bounded design checks and generator for C19.                            *)
(*  Mode "less":   order axioms of the transcribed LocationLess            *)
(*                 (irreflexive, asymmetric, transitive) over all pairs /  *)
(*                 triples of a term universe; cases = batches of pairs    *)
(*                 for exact agreement with the real LocationLess.         *)
(*  Mode "insert": every insertion sequence of <= MaxIns features.         *)
(*  Mode "select": tables x selectors x filters.                           *)
(***************************************************************************)
EXTENDS Feat, Json, IOUtils, SequencesExt, CSV

CONSTANTS Mode, L, MaxIns, Batch, Stride, Offset

JP == Points(L) \cup PlainRanges(L)
LU == Atoms(L)
      \cup {Cp(a) : a \in Points(L) \cup Ranges(L)}
      \cup {Jn(<<a, b>>) : a \in JP, b \in JP}
      \cup {Cp(Jn(<<a, b>>)) : a \in Points(L), b \in JP}
      \cup {Od(<<a, b>>) : a \in Points(L), b \in JP}
      \cup {Jn(<<Cp(a), Cp(b)>>) : a \in Points(L), b \in Points(L)}
LUSeq == SetToSeq(LU)
NLU == Len(LUSeq)

\* insertion universe: a smaller set with ties, sources, partial ranges, joins
IU == {Pt(0), Pt(1), Bw(1), Rg(0, 2, FALSE, FALSE), Rg(0, 2, TRUE, FALSE), Rg(0, 2, TRUE, TRUE), Rg(1, 3, FALSE, FALSE),
       Cp(Rg(0, 2, FALSE, FALSE)), Jn(<<Rg(0, 1, FALSE, FALSE), Rg(2, 3, FALSE, FALSE)>>), Jn(<<Pt(2), Pt(0)>>),
       Od(<<Pt(0), Pt(2)>>), Am(0, 2), Cp(Jn(<<Pt(0), Pt(2)>>))}
IFeats == {[key |-> "gene", loc |-> t] : t \in IU} \cup {[key |-> "source", loc |-> t] : t \in {Rg(0, 3, FALSE, FALSE), Rg(1, 3, FALSE, FALSE)}}
InsSeqs == UNION {SeqsOf(IFeats, k) : k \in 1..MaxIns}
InsSeq == SetToSeq(InsSeqs)

\* selection universe
C(s) == s
Vals == {<<"a">>, <<"b">>, <<"a", "b">>, <<"b", "a">>, <<"a", "a">>, <<"a", "=", "b">>}
Res == {[k |-> "lit", s |-> <<"a">>], [k |-> "lit", s |-> <<"a", "b">>], [k |-> "pre", s |-> <<"a">>], [k |-> "suf", s |-> <<"a">>],
        [k |-> "exact", s |-> <<"a", "b">>], [k |-> "dot"], [k |-> "empty"],
        \* a regexp that contains the character separating name and regexp
        [k |-> "lit", s |-> <<"a", "=", "b">>], [k |-> "lit", s |-> <<"=">>]}
Names == {"n", "m"}
QualSets ==  \* cv forms: sequences of <<name, values>>
  { <<>>, << <<"n", <<<<"a">>>>>> >>, << <<"n", <<<<"a", "b">>>>>> >>, << <<"n", <<<<"b">>, <<"a">>>>>> >>,
    << <<"m", <<<<"b", "a">>>>>> >>, << <<"n", <<<<"b">>>>>>, <<"m", <<<<"a", "b">>>>>> >>,
    << <<"n", <<<<"a", "a">>>>>>, <<"m", <<<<"b">>>>>> >>, << <<"n", <<<<"a", "=", "b">>>>>> >>, << <<"m", <<<<"a">>, <<"a", "=", "b">>>>>> >> }
TLocs == {Rg(0, 3, FALSE, FALSE), Rg(2, 5, TRUE, FALSE), Cp(Rg(1, 4, FALSE, FALSE)), Pt(4), Bw(2),
          Jn(<<Rg(0, 2, FALSE, FALSE), Rg(4, 6, FALSE, FALSE)>>), Jn(<<Cp(Pt(5)), Cp(Pt(1))>>), Jn(<<Pt(0), Cp(Pt(3))>>)}
TKeys == {"gene", "cds"}
TFeats == {[key |-> k, loc |-> t, cv |-> q] : k \in TKeys, t \in TLocs, q \in QualSets}
TFSeq == SetToSeq(TFeats)
\* tables: consecutive runs of the feature universe (every feature occurs)
TabLen == 8
NTabs == (Len(TFSeq) + TabLen - 1) \div TabLen
\* every feature carries a /label qualifier (value "t<j>"), listed first
Table(b) == LET lo == (b - 1) * TabLen  n == IMin(TabLen, Len(TFSeq) - lo)
            IN [j \in 1..n |-> [key |-> TFSeq[lo + j].key, loc |-> TFSeq[lo + j].loc, label |-> "t" \o ToString(j),
                                 \* a feature without qualifiers carries no qualifier VALUE at all: it is identified
                                 \* by a value-less marker qualifier named t<j>
                                 nolabel |-> (TFSeq[lo + j].cv = <<>>),
                                 cv |-> IF TFSeq[lo + j].cv = <<>> THEN << <<"t" \o ToString(j), <<>>>> >>
                                        ELSE << <<"label", << <<"t", ToString(j)>> >> >> >> \o TFSeq[lo + j].cv]]
Clauses == {[name |-> nm, re |-> re, bare |-> FALSE] : nm \in Names \cup {""}, re \in Res}
           \cup {[name |-> nm, re |-> [k |-> "empty"], bare |-> TRUE] : nm \in Names}
Sels == {[key |-> k, clauses |-> <<>>] : k \in TKeys \cup {""}}
        \cup {[key |-> k, clauses |-> <<c>>] : k \in {"gene", ""}, c \in Clauses}
        \cup {[key |-> "", clauses |-> <<c, d>>] : c \in {x \in Clauses : x.name = "n"}, d \in {x \in Clauses : x.name # "n" /\ x.re.k \in {"lit", "empty"}}}
SelFilt(s) == [f |-> "sel", sel |-> s, s |-> PrintSel(s)]
\* other spellings of the unnamed clause with an empty regexp: an empty segment followed by another slash
AnyValue == [name |-> "", re |-> [k |-> "empty"], bare |-> FALSE]
Spelt == { [f |-> "sel", sel |-> [key |-> "gene", clauses |-> <<AnyValue>>], spelt |-> TRUE, s |-> "gene//"],
           [f |-> "sel", sel |-> [key |-> "", clauses |-> <<AnyValue>>], spelt |-> TRUE, s |-> "//"],
           [f |-> "sel", sel |-> [key |-> "cds", clauses |-> <<AnyValue, AnyValue>>], spelt |-> TRUE, s |-> "cds///"],
           [f |-> "sel", sel |-> [key |-> "gene", clauses |-> <<AnyValue, [name |-> "n", re |-> [k |-> "empty"], bare |-> TRUE]>>], spelt |-> TRUE, s |-> "gene//n"],
           [f |-> "sel", sel |-> [key |-> "", clauses |-> <<AnyValue>>], spelt |-> TRUE, s |-> "/="],
           [f |-> "sel", sel |-> [key |-> "gene", clauses |-> <<>>], spelt |-> TRUE, s |-> "gene/"] }
Basic == {[f |-> "within", l |-> l, u |-> u] : l \in {0, 2}, u \in {3, 6}}
         \cup {[f |-> "overlap", l |-> l, u |-> u] : l \in {0, 2}, u \in {3, 6}}
         \cup {[f |-> "fwd"], [f |-> "rev"], [f |-> "true"], [f |-> "false"], [f |-> "key", key |-> "gene"], [f |-> "key", key |-> ""]}
Combos == {[f |-> "and", xs |-> <<a, b>>] : a \in Basic, b \in Basic}
          \cup {[f |-> "or", xs |-> <<a, b>>] : a \in Basic, b \in Basic}
          \cup {[f |-> "not", x |-> a] : a \in Basic}
          \cup {[f |-> "and", xs |-> <<a>>] : a \in Basic} \cup {[f |-> "or", xs |-> <<a>>] : a \in Basic}
          \cup {[f |-> "not", x |-> [f |-> "and", xs |-> <<a, [f |-> "not", x |-> b]>>]] : a \in {x \in Basic : x.f = "within"}, b \in {x \in Basic : x.f \in {"fwd", "rev"}}}
Filters == SetToSeq({SelFilt(s) : s \in Sels} \cup Spelt \cup Basic \cup Combos)

NItems == CASE Mode = "less" -> (NLU * NLU + Batch - 1) \div Batch
            [] Mode = "insert" -> (Len(InsSeq) + Batch - 1) \div Batch
            [] Mode = "select" -> NTabs
Picked == SelectSeq([j \in 1..NItems |-> j], LAMBDA j : (j + (j \div Stride) + (j \div (Stride * Stride))) % Stride = Offset % Stride)

PairAt(k) == <<LUSeq[(k \div NLU) + 1], LUSeq[(k % NLU) + 1]>>   \* k in 0..NLU*NLU-1

FeatJson(f, lab) ==
  [key |-> f.key, label |-> lab, loc |-> f.loc,
   props |-> [j \in 1..Len(f.cv) |-> <<f.cv[j][1]>> \o [q \in 1..Len(f.cv[j][2]) |-> Cat(f.cv[j][2][q])]],
   cv |-> f.cv, nolabel |-> IF "nolabel" \in DOMAIN f THEN f.nolabel ELSE FALSE]

BatchJson(b) ==
  CASE Mode = "less" ->
       LET lo == (b - 1) * Batch  n == IMin(Batch, NLU * NLU - lo)
       IN [id |-> "ls" \o ToString(b), fam |-> "less", pairs |-> [j \in 1..n |-> PairAt(lo + j - 1)]]
    [] Mode = "insert" ->
       LET lo == (b - 1) * Batch  n == IMin(Batch, Len(InsSeq) - lo)
       IN [id |-> "in" \o ToString(b), fam |-> "insert",
           seqs |-> [j \in 1..n |-> [q \in 1..Len(InsSeq[lo + j]) |-> [key |-> InsSeq[lo + j][q].key, loc |-> InsSeq[lo + j][q].loc, label |-> "i" \o ToString(q)]]]]
    [] Mode = "select" ->
       [id |-> "se" \o ToString(b), fam |-> "select",
        table |-> [j \in 1..Len(Table(b)) |-> FeatJson(Table(b)[j], Table(b)[j].label)],
        filters |-> Filters]

VARIABLES lo, hi, done
vars == <<lo, hi, done>>
Init == lo = 1 /\ hi = Len(Picked) /\ done = FALSE
Split ==
  /\ lo < hi
  /\ LET mid == (lo + hi) \div 2 IN \/ (lo' = lo /\ hi' = mid) \/ (lo' = mid + 1 /\ hi' = hi)
  /\ done' = FALSE
Emit ==
  /\ lo = hi /\ ~done
  /\ IF "CASES" \in DOMAIN IOEnv THEN CSVWrite("%1$s", <<ToJson(BatchJson(Picked[lo]))>>, IOEnv.CASES) ELSE TRUE
  /\ done' = TRUE /\ UNCHANGED <<lo, hi>>
Next == Split \/ Emit
Spec == Init /\ [][Next]_vars

\* design checks
LessAxioms(b) ==
  LET bj == BatchJson(b) IN
  UNION {LET a == bj.pairs[j][1]  c == bj.pairs[j][2] IN
         If2(a = c /\ Less(a, a), {<<"irreflexive", PrintLoc(a), "", "">>})
         \cup If2(Less(a, c) /\ Less(c, a), {<<"asymmetric", PrintLoc(a), PrintLoc(c), "">>})
         \cup {<<"transitive", PrintLoc(a), PrintLoc(c), PrintLoc(LUSeq[q])>> :
                 q \in {q \in 1..NLU : Less(a, c) /\ Less(c, LUSeq[q]) /\ ~Less(a, LUSeq[q])}}
        : j \in 1..Len(bj.pairs)}
InsertOK(b) ==
  LET bj == BatchJson(b) IN
  UNION {LET ins == [q \in 1..Len(bj.seqs[j]) |-> [key |-> bj.seqs[j][q].key, loc |-> bj.seqs[j][q].loc, label |-> bj.seqs[j][q].label, props |-> <<>>]]
             out == FInsertAll(<<>>, ins)
         IN {<<v, JoinStr([q \in 1..Len(ins) |-> ins[q].key \o ":" \o PrintLoc(ins[q].loc)], " "), "", "">> : v \in JudgeInserted(ins, out)}
        : j \in 1..Len(bj.seqs)}

DesignOK ==
  (lo = hi /\ ~done /\ Mode \in {"less", "insert"}) =>
    LET res == IF Mode = "less" THEN LessAxioms(Picked[lo]) ELSE InsertOK(Picked[lo])
    IN IF res = {} THEN TRUE ELSE PrintT(<<"UNEXPLAINED", Picked[lo], res>>) /\ FALSE
=============================================================================
