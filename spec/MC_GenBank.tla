----------------------------- MODULE MC_GenBank -----------------------------
(***************************************************************************)
(* Design check and generator for C01.                                     *)
(*  Mode "shapes": the field-shape product - a base record with every      *)
(*     alternative of every field (one factor at a time) and every PAIR of *)
(*     alternatives of two different fields; streams of 1..3 records.      *)
(*  Mode "registry": every teaching history of length <= 3 over two fresh  *)
(*     qualifier names x three forms, then a record using those names.     *)
(*     DesignOK: in the registry model a writable qualifier reads back     *)
(*     with its value under every history.                                 *)
(*  Mode "dates": every calendar date of [Y0, Y1] in the LOCUS line.       *)
(***************************************************************************)
EXTENDS GenBank, Json, IOUtils, SequencesExt, CSV

CONSTANTS Mode, Y0, Y1, Batch, Stride, Offset, PipeLen

Pt(p) == [k |-> "pt", p |-> p]
Rg(s, e, a, b) == [k |-> "rg", s |-> s, e |-> e, p5 |-> a, p3 |-> b]
Jn(xs) == [k |-> "jn", xs |-> xs]
Cp(x) == [k |-> "cp", x |-> x]
Bw(p) == [k |-> "bw", p |-> p]
Od(xs) == [k |-> "od", xs |-> xs]
Am(s, e) == [k |-> "am", s |-> s, e |-> e]
Feat(key, loc, quals) == [key |-> key, loc |-> loc, quals |-> quals]
SrcFeat == Feat("source", Rg(0, 10, FALSE, FALSE), << <<"organism", "synthetic construct">>, <<"mol_type", "genomic DNA">> >>)
Ref(n, info, au, gr, ti, jo, pm, rm) == [number |-> n, info |-> info, authors |-> au, group |-> gr, title |-> ti, journal |-> jo, pubmed |-> pm, remark |-> rm]

Base == [locus |-> "LOC1", molecule |-> "DNA", topology |-> "linear", division |-> "SYN", date |-> <<2020, 2, 29>>,
         definition |-> "a definition", accession |-> "AC000001", version |-> "AC000001.1", dblink |-> <<>>,
         keywords |-> <<>>, source |-> [species |-> "synthetic construct", name |-> "synthetic construct", taxon |-> <<"other sequences", "artificial sequences">>],
         references |-> <<>>, comments |-> <<>>, extra |-> <<>>, region |-> <<>>, feats |-> <<SrcFeat>>, len |-> 10, alpha |-> "acgt"]

Long == "word1 word2 word3 word4 word5 word6 word7 word8 word9 word10 word11 word12 word13 word14 word15"
\* words of exactly 58 / 57 letters: the width of a qualifier line is 79 - 21 = 58 columns
W58 == "abcdefghijklmnopqrstuvwxyzabcdefghijklmnopqrstuvwxyzabcdef"
W57 == "abcdefghijklmnopqrstuvwxyzabcdefghijklmnopqrstuvwxyzabcde"
Alts == <<
  <<"locus", "A">>, <<"locus", "A_LONG_LOCUS_NAME_23CH">>, <<"locus", "A_LOCUS_NAME_OF_25_CHARS_">>, <<"locus", "A_LOCUS_NAME_OF_EXACTLY_28_CH">>,
  <<"locus", "SIXTEEN_CHARS_XX">>, <<"locus", "SEVENTEEN_CHARS_X">>, <<"locus", "EIGHTEEN_CHARS_XXX">>,
  <<"molecule", "RNA">>, <<"molecule", "ss-DNA">>, <<"molecule", "AA">>,
  <<"topology", "circular">>,
  <<"division", "PHG">>, <<"division", "BCT">>,
  <<"date", <<1999, 12, 31>>>>, <<"date", <<2000, 2, 29>>>>,
  <<"definition", "">>, <<"definition", "ends with a period.">>, <<"definition", "two lines\nof definition">>, <<"definition", Long>>,
  <<"accession", "">>, <<"accession", "AC1 AC2">>,
  <<"version", "">>,
  <<"dblink", << <<"BioProject", "PRJNA1">> >>>>, <<"dblink", << <<"BioProject", "PRJNA1">>, <<"KEGG BRITE", "NC_1">> >>>>,
  <<"keywords", <<"RefSeq">>>>, <<"keywords", <<"a", "b c", "d">>>>, <<"keywords", <<Long, "x">>>>,
  \* list elements that themselves end in (or contain) the list punctuation
  <<"keywords", <<"RefSeq", "Bacillus sp.">>>>, <<"keywords", <<"sp.", "x">>>>, <<"keywords", <<"a.b", "c">>>>,
  <<"source", [species |-> "s", name |-> "n", taxon |-> <<"Bacteria", "incertae sedis.">>]>>,
  <<"source", [species |-> "s", name |-> "n", taxon |-> <<"unclassified.", "x">>]>>,
  <<"source", [species |-> "Escherichia coli K-12", name |-> "Escherichia coli", taxon |-> <<"Bacteria", "Proteobacteria">>]>>,
  <<"source", [species |-> "s", name |-> "n", taxon |-> <<>>]>>,
  <<"source", [species |-> Long, name |-> "n", taxon |-> <<"a", "z">>]>>,
  <<"source", [species |-> "s", name |-> "n", taxon |-> <<"a", Long, "z">>]>>,
  <<"source", [species |-> "s", name |-> Long, taxon |-> <<"a", "z">>]>>,
  <<"references", <<Ref(1, "(bases 1 to 10)", "A,B. and C,D.", "", "A title", "J. Mol. Biol. 1 (1), 1-2 (2000)", "123", "")>>>>,
  <<"references", <<Ref(1, "", "A,B.", "Consortium", "T", "J", "", "a remark"), Ref(2, "(bases 2 to 5; 7 to 9)", "", "", "", "Unpublished", "", "")>>>>,
  <<"references", <<Ref(1, "(bases 1 to 10)", "A,B.", "", "a title that\ncontinues on a second line", "J", "9", "remark\nsecond line")>>>>,
  <<"references", <<Ref(12, "(sites)", "A,B.", "", "T", "J", "", "")>>>>,
  \* reference numbers of three and four digits (the number column is three wide)
  <<"references", <<Ref(100, "(bases 1 to 10)", "A,B.", "", "T", "J", "", ""), Ref(999, "", "A,B.", "", "T", "J", "", "")>>>>,
  <<"references", <<Ref(1000, "(bases 1 to 10)", "A,B.", "", "T", "J", "", ""), Ref(12345, "(sites)", "A,B.", "", "T", "J", "", "")>>>>,
  <<"comments", <<"one comment">>>>, <<"comments", <<"first paragraph\n\nsecond paragraph after a blank line">>>>,
  <<"definition", "a definition\n\nwith a blank line">>, <<"extra", << <<"NOTE", "one\n\nthree">> >>>>,
  <<"references", <<Ref(1, "(bases 1 to 10)", "A,B.", "", "T", "J", "", "remark para one\n\nremark para two")>>>>, <<"comments", <<"first\nsecond line", "another comment">>>>,
  <<"extra", << <<"FOO", "bar">> >>>>, <<"extra", << <<"PRIMARY", "line one\nline two">>, <<"BAZ", "">> >>>>,
  <<"comments", <<"line one\n  an indented second line\nthird">>>>, <<"comments", <<"ends with blanks  ">>>>,
  <<"dblink", << <<"BioProject", "PRJNA1: with colon">> >>>>, <<"accession", "AC1-AC9 AC12">>,
  <<"references", <<Ref(1, "(bases 1 to 10)", "A,B., C,D. and E,F.", "", "Title: with a colon; and a semicolon", "J. Mol. Biol. 1 (1), 1-2 (2000)", "123", "")>>>>,
  <<"region", <<2, 8>>>>,
  <<"len", 0>>, <<"len", 1>>, <<"len", 9>>, <<"len", 11>>, <<"len", 59>>, <<"len", 60>>, <<"len", 61>>, <<"len", 119>>, <<"len", 120>>, <<"len", 121>>, <<"len", 999>>, <<"len", 1000>>, <<"len", 12345>>,
  <<"alpha", "print">>,
  <<"contig", [accession |-> "U00096.3", h |-> 0, t |-> 4641]>>,
  <<"feats", <<>>>>,
  <<"feats", <<SrcFeat, Feat("gene", Rg(1, 5, TRUE, FALSE), << <<"gene", "abc">>, <<"note", "a note with several words">> >>),
               Feat("CDS", Cp(Jn(<<Rg(0, 3, FALSE, FALSE), Rg(5, 9, FALSE, TRUE)>>)), << <<"codon_start", "1">>, <<"product", "a protein">>, <<"pseudo", "">>, <<"translation", "MKV">> >>)>>>>,
  <<"feats", <<SrcFeat, Feat("misc_feature", Bw(4), << <<"note", "first value">>, <<"note", "second value">> >>),
               Feat("variation", Pt(3), <<>>), Feat("gene", Od(<<Pt(1), Rg(4, 6, FALSE, FALSE)>>), << <<"db_xref", "GeneID:1">> >>),
               Feat("misc_feature", Am(2, 6), << <<"note", "">> >>), Feat("gene", Jn(<<Cp(Rg(6, 8, FALSE, FALSE)), Cp(Rg(1, 3, FALSE, FALSE))>>), <<>>)>>>>,
  <<"feats", <<SrcFeat, Feat("gene", Rg(0, 10, TRUE, TRUE), << <<"note", Long \o " " \o Long>>, <<"$a", "value of an unknown name">>, <<"$b", "">> >>)>>>>,
  <<"feats", <<SrcFeat, Feat("gene", Rg(2, 4, FALSE, FALSE), << <<"note", "line one\nline two">>, <<"transl_table", "11">> >>)>>>>,
  \* quoted values of three and more lines with short (even empty-looking) middle lines
  <<"feats", <<SrcFeat, Feat("gene", Rg(2, 4, FALSE, FALSE), << <<"note", "first line of the note\nshort\nlast line of the note">>,
                                                               <<"function", "a\nb\nc\nd">>, <<"product", W58 \o "\nx\n" \o W57>> >>)>>>>,
  \* a location longer than one line (wrapped at a comma), a 15-letter key, values around the wrap width
  <<"feats", <<SrcFeat, Feat("CDS", Jn(<<Rg(0, 1, TRUE, FALSE), Rg(1, 2, FALSE, FALSE), Pt(2), Rg(3, 5, FALSE, FALSE), Pt(5), Rg(6, 7, FALSE, FALSE), Pt(7), Pt(8), Rg(8, 9, FALSE, FALSE),
                                          Pt(9), Rg(0, 2, FALSE, FALSE), Rg(2, 4, FALSE, FALSE), Rg(4, 6, FALSE, FALSE), Rg(6, 8, FALSE, FALSE), Rg(8, 10, FALSE, TRUE)>>), << <<"gene", "long">> >>),
               Feat("regulatory_regi", Cp(Od(<<Rg(0, 2, FALSE, FALSE), Rg(3, 5, FALSE, FALSE), Rg(6, 8, FALSE, FALSE), Rg(0, 3, FALSE, FALSE), Rg(4, 6, FALSE, FALSE), Rg(7, 9, FALSE, FALSE),
                                                  Rg(1, 3, FALSE, FALSE), Rg(5, 7, FALSE, FALSE), Rg(8, 10, FALSE, FALSE), Rg(2, 5, FALSE, FALSE), Rg(6, 9, FALSE, FALSE)>>)), <<>>)>>>>,
  <<"feats", <<SrcFeat, Feat("gene", Rg(2, 4, FALSE, FALSE), << <<"note", W58>>, <<"gene", W57 \o " x">>, <<"product", W58 \o "y">>, <<"function", "ends with blank ">> >>)>>>>,
  <<"feats", <<SrcFeat, Feat("gene", Rg(2, 4, FALSE, FALSE), << <<"note", "has a \"quoted\" word">>, <<"gene", "after">> >>)>>>>,
  <<"feats", <<SrcFeat, Feat("gene", Rg(2, 4, FALSE, FALSE), << <<"note", "ends with a backslash\\">>, <<"gene", "after">> >>)>>>>,
  <<"feats", <<SrcFeat, Feat("gene", Rg(2, 4, FALSE, FALSE), << <<"note", "/looks=like a qualifier">>, <<"number", "1a">> >>)>>>>
>>
NAlts == Len(Alts)
Over(j) == [x \in {Alts[j][1]} |-> Alts[j][2]]
RecOf(js) ==  \* js: set of alternative indices of pairwise different fields
  LET RECURSIVE Build(_)
      Build(S) == IF S = {} THEN Base ELSE LET j == CHOOSE x \in S : TRUE IN Over(j) @@ Build(S \ {j})
  IN Build(js)
SameField(i, j) == Alts[i][1] = Alts[j][1]
ShapeSets == {{}} \cup {{j} : j \in 1..NAlts}
             \cup {p \in {{i, j} : i \in 1..NAlts, j \in 1..NAlts} : Cardinality(p) = 2 /\ \A i \in p, j \in p : i = j \/ ~SameField(i, j)}
ShapeSeq == SetToSeq(ShapeSets)

\* registry histories
Names == {"$a", "$b"}
Teach == {<<n, t>> : n \in Names, t \in Types}
RECURSIVE SeqsOver(_, _)
SeqsOver(S, n) == IF n = 0 THEN {<<>>} ELSE {<<x>> \o r : x \in S, r \in SeqsOver(S, n - 1)}
Hists == UNION {SeqsOver(Teach, n) : n \in 0..3}
HistSeq == SetToSeq(Hists)
RegAfter(h) == LET RECURSIVE G(_, _)
                   G(reg, k) == IF k > Len(h) THEN reg ELSE G(Learn(reg, h[k][1], h[k][2]), k + 1)
               IN G(<< >>, 1)
TestVals == {"", "v", "two words"}
\* the qualifiers a record may carry under registry reg: every writable (name, value)
RegFeats(reg) ==
  LET qs == SetToSeq({x \in Names \X TestVals : Writable(reg, x[1], x[2])})
  IN <<SrcFeat, Feat("gene", Rg(1, 4, FALSE, FALSE), qs)>>

\* dates
DateSeq == SetToSeq({<<y, m, d>> : y \in Y0..Y1, m \in 1..12, d \in 1..31} \cap {x \in {<<y, m, d>> : y \in Y0..Y1, m \in 1..12, d \in 1..31} : ValidDate(x[1], x[2], x[3])})

\* reachability: pipelines of edit operations over the corpus records; the
\* arguments are eighths of the current length (resolved by the harness)
Corpus == <<"NC_001422.gb", "NC_001422_part.gb", "pBAT5.txt", "NC_000913.3.min.gb">>
OpT == {<<"insert", a, 0>> : a \in {0, 3, 8}} \cup {<<"embed", 4, 0>>}
       \cup {<<"delete", 1, 3>>, <<"delete", 0, 8>>, <<"delete", 0, 2>>, <<"erase", 2, 6>>, <<"erase", 6, 8>>}
       \cup {<<"slice", 2, 5>>, <<"slice", 6, 2>>, <<"slice", 0, 8>>, <<"slice", 4, 4>>, <<"rotate", 3, 0>>, <<"rotate", 0, 5>>}
       \cup {<<"reverse", 0, 0>>, <<"complement", 0, 0>>, <<"concat", 2, 6>>, <<"clear", 0, 0>>, <<"repair", 0, 0>>}
Pipes == UNION {SeqsOver(OpT, n) : n \in 1..PipeLen}
PipeSeq == SetToSeq(Pipes)

\* Mode "pad": streams of Batch records whose COMMENT is a word of Y0..Y1 letters - every record starts, and
\* every field falls, at a different offset modulo the reader's buffer size
RECURSIVE Rep(_, _)
Rep(str, n) == IF n = 0 THEN "" ELSE IF n % 2 = 0 THEN Rep(str \o str, n \div 2) ELSE str \o Rep(str \o str, n \div 2)
NPads == Y1 - Y0 + 1
NItems == CASE Mode = "pad" -> (NPads + Batch - 1) \div Batch [] Mode = "corpus" -> Len(PipeSeq) * Len(Corpus) [] Mode = "shapes" -> Len(ShapeSeq) [] Mode = "registry" -> Len(HistSeq) [] Mode = "dates" -> (Len(DateSeq) + Batch - 1) \div Batch
Picked == SelectSeq([j \in 1..NItems |-> j], LAMBDA j : (j + (j \div Stride) + (j \div (Stride * Stride))) % Stride = Offset % Stride)

CaseJson(j) ==
  CASE Mode = "corpus" ->
         [id |-> "cp" \o ToString(j), corpus |-> Corpus[((j - 1) % Len(Corpus)) + 1], ops |-> PipeSeq[((j - 1) \div Len(Corpus)) + 1]]
    [] Mode = "shapes" ->
         LET r == RecOf(ShapeSeq[j])
             k == (j % 3) + 1       \* streams of 1..3 records
         IN [id |-> "sh" \o ToString(j), teach |-> <<>>, recs |-> [q \in 1..k |-> IF q = k THEN r ELSE [Base EXCEPT !.locus = "PRE" \o ToString(q)]]]
    [] Mode = "registry" ->
         [id |-> "rg" \o ToString(j), teach |-> HistSeq[j], recs |-> <<[Base EXCEPT !.feats = RegFeats(RegAfter(HistSeq[j]))]>>]
    [] Mode = "pad" ->
         LET lo0 == (j - 1) * Batch  n == IF NPads - lo0 < Batch THEN NPads - lo0 ELSE Batch
         IN [id |-> "pd" \o ToString(j), teach |-> <<>>,
             recs |-> [q \in 1..n |-> [Base EXCEPT !.comments = <<Rep("x", Y0 + lo0 + q - 1)>>, !.locus = "P" \o ToString(q)]]]
    [] Mode = "dates" ->
         LET lo0 == (j - 1) * Batch  n == IF Len(DateSeq) - lo0 < Batch THEN Len(DateSeq) - lo0 ELSE Batch
         IN [id |-> "dt" \o ToString(j), teach |-> <<>>, recs |-> [q \in 1..n |-> [Base EXCEPT !.date = DateSeq[lo0 + q], !.locus = "D" \o ToString(q)]]]

VARIABLES lo, hi, done
vars == <<lo, hi, done>>
Init == lo = 1 /\ hi = Len(Picked) /\ done = FALSE
Split ==
  /\ lo < hi
  /\ LET mid == (lo + hi) \div 2 IN \/ (lo' = lo /\ hi' = mid) \/ (lo' = mid + 1 /\ hi' = hi)
  /\ done' = FALSE
Emit ==
  /\ lo = hi /\ ~done
  /\ IF "CASES" \in DOMAIN IOEnv THEN CSVWrite("%1$s", <<ToJson(CaseJson(Picked[lo]))>>, IOEnv.CASES) ELSE TRUE
  /\ done' = TRUE /\ UNCHANGED <<lo, hi>>
Next == Split \/ Emit
Spec == Init /\ [][Next]_vars

\* registry model: under every teaching history, every writable qualifier
\* is written in a form that reads back with its value, and the registry
\* after the round trip makes a second write identical
DesignOK ==
  (lo = hi /\ ~done /\ Mode = "registry") =>
    LET h == HistSeq[Picked[lo]]
        reg == RegAfter(h)
        bad == {x \in {y \in Names \X TestVals : Writable(reg, y[1], y[2])} :
                  LET form == WriteForm(reg, x[1])
                      rb == ReadBack(reg, x[1], form, WrittenValue(form, x[2]))
                  IN ~rb[1] \/ rb[2] # x[2] \/ WriteForm(rb[3], x[1]) # form}
    IN IF bad = {} THEN TRUE ELSE PrintT(<<"UNEXPLAINED", h, bad>>) /\ FALSE
=============================================================================
