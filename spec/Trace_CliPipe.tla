---------------------------- MODULE Trace_CliPipe ----------------------------
(* Trace validation for the command-line clause of C01: one event per        *)
(* pipeline  gts A < input | gts B.                                           *)
(*   closure      if A succeeded and wrote something, B accepts it            *)
(*   readable     what B wrote is accepted by seqio                           *)
(*   fixed point  re-writing the records read from B's output reproduces it   *)
EXTENDS Integers, Sequences, FiniteSets, TLC, Json, IOUtils, SequencesExt

Trace == ndJsonDeserialize(IOEnv.TRACE)
N == Len(Trace)
VARIABLES l, verdicts
vars == <<l, verdicts>>
TInit == l = 1 /\ verdicts = {}
If(c, vs) == IF c THEN vs ELSE {}
EvPipe ==
  /\ Trace[l].ev = "clipipe"
  /\ LET e == Trace[l]
         vs == If(e.hang, {"hang"})
               \cup If(~e.hang /\ e.status1 = 0 /\ e.len1 > 0 /\ e.status2 # 0, {"own-output-rejected"})
               \cup If(e.status1 = 0 /\ e.status2 = 0 /\ e.rerr # "", {"output-unreadable"})
               \cup If(e.status1 = 0 /\ e.status2 = 0 /\ e.rerr = "" /\ ~e.fixed, {"not-fixed-point"})
               \cup If(e.status1 = 0 /\ e.rerr1 # "", {"first-output-unreadable"})
     IN verdicts' = verdicts \cup {<<l, e.case, e.cmdline, v, "-">> : v \in vs}
Consume == l <= N /\ EvPipe /\ l' = l + 1
Finish ==
  /\ l = N + 1
  /\ LET vseq == SetToSeq(verdicts) IN
     ndJsonSerialize(IOEnv.VERDICTS,
        <<[consumed |-> l - 1, ops |-> l - 1, nverdicts |-> Cardinality(verdicts)]>>
        \o [j \in 1..Len(vseq) |-> [line |-> vseq[j][1], case |-> vseq[j][2], op |-> vseq[j][3],
                                     rule |-> vseq[j][4], label |-> vseq[j][5], calc |-> "-"]])
  /\ l' = l + 1 /\ UNCHANGED verdicts
TNext == Consume \/ Finish
TSpec == TInit /\ [][TNext]_vars
TraceAccepted == TLCGet("stats").diameter = N + 2
=============================================================================
