------------------------------ MODULE MC_Stream ------------------------------
(* Generator for Stream.tla: record streams x commands (TLC enumerates the  *)
(* configurations; the library-level semantics is design-checked by MC_Seq,  *)
(* MC_Feat and MC_Region).                                                   *)
EXTENDS Stream, Json, IOUtils, SequencesExt, CSV
CONSTANTS Stride, Offset, MaxStream,
          CmdSet      \* the commands to drive

F(key, lab, t, props) == [key |-> key, label |-> lab, loc |-> t, built |-> TRUE, props |-> props]
Rec(name, base, n, topo, feats, refs) ==
  [name |-> name, res |-> [q \in 1..n |-> base + q], topo |-> topo, kind |-> "gb", feats |-> feats, refs |-> refs]
RefRec(rs) == [info |-> "(bases " \o JoinStr([j \in 1..Len(rs) |-> ToString(rs[j][1] + 1) \o " to " \o ToString(rs[j][2])], "; ") \o ")",
               ranged |-> TRUE, ranges |-> rs]

\* tables are in sorted order (sources first, then by location) so that define's order rule applies
Recs == <<
  Rec("RA", 96, 10, "linear",
      << F("source", "s", Rg(0, 10, FALSE, FALSE), <<>>), F("CDS", "c", Jn(<<Rg(0, 2, FALSE, FALSE), Rg(5, 8, FALSE, FALSE)>>), << <<"product", "pp">> >>),
         F("gene", "a", Rg(1, 4, FALSE, FALSE), << <<"gene", "xx">> >>), F("gene", "b", Cp(Rg(3, 7, FALSE, FALSE)), << <<"gene", "yy">>, <<"pseudo", "">> >>),
         F("gene", "d", Rg(6, 9, TRUE, FALSE), << <<"gene", "xx">>, <<"note", "zz">> >>), F("misc_feature", "e", Pt(9), <<>>) >>,
      << RefRec(<< <<0, 10>> >>), RefRec(<< <<2, 5>> >>) >>),
  Rec("RB", 106, 6, "circular",
      << F("source", "s", Rg(0, 6, FALSE, FALSE), <<>>), F("gene", "a", Cp(Jn(<<Rg(0, 2, FALSE, FALSE), Rg(4, 6, FALSE, FALSE)>>)), << <<"gene", "yy">> >>),
         F("tRNA", "t", Rg(2, 4, FALSE, TRUE), << <<"pseudo", "">> >>) >>,
      << >>),
  Rec("RC", 112, 8, "linear",
      << F("source", "s", Rg(0, 4, FALSE, FALSE), <<>>), F("source", "u", Rg(4, 8, FALSE, FALSE), <<>>),
         F("gene", "a", Rg(1, 3, FALSE, TRUE), << <<"gene", "xx">> >>), F("gene", "g", Rg(3, 6, TRUE, FALSE), << <<"gene", "xx">> >>),
         F("CDS", "c", Cp(Rg(2, 5, FALSE, FALSE)), << <<"product", "pp">>, <<"note", "zz">> >>) >>,
      << RefRec(<< <<0, 8>> >>) >>),
  Rec("RD", 64, 6, "linear", << >>, << >>),
  \* exactly two features, the two fragments of one cut feature (equal key and qualifiers, facing partial ends):
  \* only driven through gts repair (the fragments share their label)
  Rec("RE", 70, 6, "linear",
      << F("gene", "m", Rg(0, 3, FALSE, TRUE), << <<"gene", "zz">> >>), F("gene", "m", Rg(3, 6, TRUE, FALSE), << <<"gene", "zz">> >>) >>, << >>)
>>
\* records for the pipeline  gts split L | gts join | gts repair  (forward contiguous features with table-unique
\* key and qualifiers: the cut features must come back exactly): one lone feature; a source and two genes
PipeRecs == <<
  Rec("RF", 76, 6, "linear", << F("gene", "a", Rg(1, 5, FALSE, FALSE), << <<"gene", "abc">> >>) >>, << >>),
  Rec("RG", 82, 8, "linear", << F("source", "s", Rg(0, 8, FALSE, FALSE), <<>>), F("gene", "a", Rg(1, 6, FALSE, FALSE), << <<"gene", "abc">> >>),
                                F("CDS", "c", Rg(2, 5, TRUE, FALSE), << <<"product", "pp">> >>) >>, << >>),
  Rec("RH", 90, 6, "linear", << F("source", "s", Rg(0, 6, FALSE, FALSE), <<>>) >>, << >>)
>>
PipeCuts == {"3", "4", "^+2", "5"}
NR == Len(Recs)
Streams == UNION {{s \in [1..k -> 1..NR] : \A a, b \in 1..k : a # b => s[a] # s[b]} : k \in 0..MaxStream}

One(n) == [k |-> "one", n |-> n]
Lists == { <<One(1)>>, <<One(2)>>, <<One(1), One(3)>>, <<[k |-> "from", n |-> 2]>>, <<[k |-> "upto", n |-> 2]>>,
           <<[k |-> "range", m |-> 1, n |-> 2]>>, <<[k |-> "range", m |-> 3, n |-> 5]>>, <<One(2), One(2)>>, <<One(3), One(1)>>,
           <<[k |-> "upto", n |-> 1], [k |-> "from", n |-> 3]>> }
Cl(name, val) == [name |-> name, val |-> val, bare |-> FALSE]
Bare(name) == [name |-> name, val |-> "", bare |-> TRUE]
Sel(key, cls) == [key |-> key, clauses |-> cls]
SelSets == { <<Sel("gene", <<>>)>>, <<Sel("CDS", <<>>)>>, <<Sel("gene", <<>>), Sel("CDS", <<>>)>>, <<Sel("nomatch", <<>>)>>,
             <<Sel("", <<Bare("pseudo")>>)>>, <<Sel("gene", <<Cl("gene", "xx")>>)>>, <<Sel("", <<Cl("gene", "yy")>>)>>,
             <<Sel("gene", <<Cl("gene", "xx"), Bare("note")>>)>>, <<Sel("", <<Cl("note", "zz")>>), Sel("tRNA", <<>>)>>, <<Sel("source", <<>>)>> }
Defs == { [key |-> "gene", loc |-> Rg(2, 5, FALSE, FALSE), props |-> <<>>],
          [key |-> "exon", loc |-> Cp(Rg(0, 3, FALSE, FALSE)), props |-> << <<"note", "nn">> >>],
          [key |-> "gene", loc |-> Pt(0), props |-> << <<"gene", "qq">>, <<"note", "nn">> >>],
          [key |-> "source", loc |-> Rg(0, 6, FALSE, FALSE), props |-> <<>>],
          [key |-> "misc_feature", loc |-> Jn(<<Rg(0, 2, FALSE, FALSE), Rg(4, 6, FALSE, FALSE)>>), props |-> <<>>],
          [key |-> "gene", loc |-> Rg(5, 6, TRUE, TRUE), props |-> <<>>] }

AddF(d) == [key |-> d.key, label |-> "", loc |-> d.loc, props |-> d.props]
DefSeq == SetToSeq(Defs)
Tabs == {<<AddF(DefSeq[1])>>, <<AddF(DefSeq[2]), AddF(DefSeq[3])>>, <<AddF(DefSeq[6]), AddF(DefSeq[5]), AddF(DefSeq[1])>>,
         <<AddF(DefSeq[4]), AddF(DefSeq[2])>>}
\* queries as text and as ASCII codes: "cd" occurs in RA (forward) and RD (upper case); "hg" is the reverse
\* complement of "cd" (c<->g, d<->h); "qr"/"ut" hit RC; "zz" hits nothing; "a" is a one-letter query
Queries == {<<"cd", <<99, 100>>>>, <<"hg", <<104, 103>>>>, <<"CD", <<67, 68>>>>, <<"zz", <<122, 122>>>>, <<"a", <<97>>>>, <<"t", <<116>>>>}
KeyProps == {<< <<>>, "misc_feature", <<>> >>, << <<"-k", "hit">>, "hit", <<>> >>, << <<"-q", "note=nn">>, "misc_feature", << <<"note", "nn">> >> >>}
NoSem == [none |-> TRUE]
Cmds ==
  {[cmd |-> c, args |-> <<>>, sem |-> NoSem] : c \in {"reverse", "complement", "repair", "clear", "length"}}
  \cup {[cmd |-> "join", args |-> <<>>, sem |-> [circular |-> FALSE]], [cmd |-> "join", args |-> <<"-c">>, sem |-> [circular |-> TRUE]],
        [cmd |-> "sort", args |-> <<>>, sem |-> [reverse |-> FALSE]], [cmd |-> "sort", args |-> <<"-r">>, sem |-> [reverse |-> TRUE]]}
  \cup {[cmd |-> "pick", args |-> <<PrintList(l)>>, sem |-> [list |-> l]] : l \in Lists}
  \cup {[cmd |-> "select", args |-> (IF v THEN <<"-v">> ELSE <<>>) \o (IF s = "both" THEN <<>> ELSE <<"-s", s>>) \o [j \in 1..Len(ss) |-> PrintSelector(ss[j])],
         sem |-> [sels |-> ss, invert |-> v, strand |-> s]] : ss \in SelSets, v \in BOOLEAN, s \in {"both", "forward", "reverse"}}
  \cup {[cmd |-> "define", args |-> FlatSeq([j \in 1..Len(d.props) |-> <<"-q", d.props[j][1] \o "=" \o d.props[j][2]>>]) \o <<d.key, PrintLoc(d.loc)>>,
         sem |-> [adds |-> <<[key |-> d.key, label |-> "", loc |-> d.loc, props |-> d.props]>>]] : d \in Defs}
  \* annotate: the harness writes sem.adds as a feature table file and substitutes its path for {table}
  \cup {[cmd |-> "annotate", args |-> <<"{table}">>, sem |-> [adds |-> t]] : t \in Tabs}
  \cup {[cmd |-> "search", args |-> <<"-e">> \o (IF nc THEN <<"--no-complement">> ELSE <<>>) \o kp[1] \o <<"@" \o q[1]>>,
         sem |-> [query |-> q[2], key |-> kp[2], props |-> kp[3], nocomp |-> nc]] : q \in Queries, nc \in BOOLEAN, kp \in KeyProps}

All == SetToSeq({<<s, c>> \in Streams \X {x \in Cmds : x.cmd \in CmdSet} : (\E a \in DOMAIN s : s[a] = NR) => c.cmd = "repair"}
                \cup (IF "repair" \in CmdSet THEN {<<<<0 - q>>, [cmd |-> "split-join-repair", args |-> <<cut>>, sem |-> NoSem]>> : q \in 1..Len(PipeRecs), cut \in PipeCuts} ELSE {}))
Picked == SelectSeq([j \in 1..Len(All) |-> j], LAMBDA j : (j + (j \div Stride) + (j \div (Stride * Stride))) % Stride = Offset % Stride)

CaseJson(j) ==
  LET x == All[j] IN
  [id |-> "st" \o ToString(j), fam |-> "stream", recs |-> [q \in 1..Len(x[1]) |-> IF x[1][q] < 0 THEN PipeRecs[0 - x[1][q]] ELSE Recs[x[1][q]]],
   cmd |-> x[2].cmd, args |-> x[2].args, sem |-> x[2].sem]

VARIABLES lo, hi, done
vars == <<lo, hi, done>>
Init == lo = 1 /\ hi = Len(Picked) /\ done = FALSE
Split ==
  /\ lo < hi
  /\ LET mid == (lo + hi) \div 2 IN \/ (lo' = lo /\ hi' = mid) \/ (lo' = mid + 1 /\ hi' = hi)
  /\ done' = FALSE
Emit ==
  /\ lo = hi /\ ~done
  /\ IF "CASES" \in DOMAIN IOEnv THEN CSVWrite("%1$s", <<ToJson(CaseJson(Picked[lo]))>>, IOEnv.CASES) ELSE TRUE
  /\ done' = TRUE /\ UNCHANGED <<lo, hi>>
Next == Split \/ Emit
Spec == Init /\ [][Next]_vars
=============================================================================
