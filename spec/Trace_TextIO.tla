---------------------------- MODULE Trace_TextIO ----------------------------
(* Trace validation for C16 / C17: every logged ORIGIN layout, FASTA stream  *)
(* and GenBank->FASTA conversion is judged by TextIO.                        *)
EXTENDS TextIO, Json, IOUtils, SequencesExt

Trace == ndJsonDeserialize(IOEnv.TRACE)
N == Len(Trace)
VARIABLES l, verdicts
vars == <<l, verdicts>>
TInit == l = 1 /\ verdicts = {}
Tag(e, what, vs) == {<<l, e.case, what, v>> : v \in vs}

EvOrigin ==
  /\ Trace[l].ev = "origin"
  /\ LET e == Trace[l] IN
     verdicts' = verdicts \cup Tag(e, "n=" \o ToString(e.n) \o "/" \o e.alpha,
                                   IF e.panic # "" THEN {"origin-panic"} ELSE JudgeOrigin(e))
EvFasta ==
  /\ Trace[l].ev = "fasta"
  /\ LET e == Trace[l] IN
     verdicts' = verdicts \cup Tag(e, "records=" \o ToString(Len(e.written)) \o (IF e.crlf THEN "/crlf" ELSE "/lf") \o "/n1=" \o ToString(Len(e.written[1].res)), JudgeFasta(e))
EvGbFasta ==
  /\ Trace[l].ev = "gbfasta"
  /\ verdicts' = verdicts \cup Tag(Trace[l], "gbfasta n=" \o ToString(Len(Trace[l].gbres)), JudgeGbFasta(Trace[l]))

Consume == l <= N /\ (EvOrigin \/ EvFasta \/ EvGbFasta) /\ l' = l + 1
Finish ==
  /\ l = N + 1
  /\ LET vseq == SetToSeq(verdicts) IN
     ndJsonSerialize(IOEnv.VERDICTS,
        <<[consumed |-> l - 1, ops |-> l - 1, nverdicts |-> Cardinality(verdicts)]>>
        \o [j \in 1..Len(vseq) |-> [line |-> vseq[j][1], case |-> vseq[j][2], op |-> vseq[j][3],
                                     rule |-> vseq[j][4], label |-> "-", calc |-> "-"]])
  /\ l' = l + 1 /\ UNCHANGED verdicts
TNext == Consume \/ Finish
TSpec == TInit /\ [][TNext]_vars
TraceAccepted == TLCGet("stats").diameter = N + 2
=============================================================================
