---------------------------- MODULE Trace_Stream ----------------------------
(* Trace validation for Stream.tla: each event is one run of the gts binary  *)
(* on a generated stream of records; inputs (as the command reads them) and  *)
(* outputs are logged as parsed records and judged by JudgeStream.           *)
EXTENDS Stream, Json, IOUtils, SequencesExt

Trace == ndJsonDeserialize(IOEnv.TRACE)
N == Len(Trace)
VARIABLES l, verdicts, njudged
vars == <<l, verdicts, njudged>>
TInit == l = 1 /\ verdicts = {} /\ njudged = 0

EvStream ==
  /\ Trace[l].ev = "stream"
  /\ LET e == Trace[l]
         vs == IF e.parseerr # "" THEN W("output-unreadable", "-") ELSE JudgeStream(e)
     IN verdicts' = verdicts \cup {<<l, e.case, e.cmdline, v[1], v[2], v[3]>> : v \in vs}
  /\ njudged' = njudged + 1

Consume == l <= N /\ EvStream /\ l' = l + 1
Finish ==
  /\ l = N + 1
  /\ LET vseq == SetToSeq(verdicts) IN
     ndJsonSerialize(IOEnv.VERDICTS,
        <<[consumed |-> l - 1, ops |-> njudged, nverdicts |-> Cardinality(verdicts)]>>
        \o [j \in 1..Len(vseq) |-> [line |-> vseq[j][1], case |-> vseq[j][2], op |-> vseq[j][3],
                                     rule |-> vseq[j][4], label |-> vseq[j][5], calc |-> vseq[j][6]]])
  /\ l' = l + 1 /\ UNCHANGED <<verdicts, njudged>>
TNext == Consume \/ Finish
TSpec == TInit /\ [][TNext]_vars
TraceAccepted == TLCGet("stats").diameter = N + 2
=============================================================================
