SPECIFICATION TSpec
CONSTANT Devs = {"RgPt", "BwRev", "BwOrigin"}
POSTCONDITION TraceAccepted
CHECK_DEADLOCK FALSE
