--------------------------- MODULE Trace_CacheCLI ---------------------------
(* Trace validation for C14.  Per history (a fresh cache directory): the     *)
(* --no-cache runs teach the reference Ref(key) = (status, output digest);   *)
(* every cached run must print Ref(key) and exit like it.  The abstract      *)
(* directory of CacheCLI.tla is advanced alongside to tell whether the run   *)
(* was a hit or a miss in the specification (reported with the verdict, and  *)
(* compared with the number of entries on disk as a drift indicator).        *)
EXTENDS Integers, Sequences, FiniteSets, TLC, Json, IOUtils, SequencesExt

Trace == ndJsonDeserialize(IOEnv.TRACE)
N == Len(Trace)
VARIABLES l, ref, dir, verdicts, nruns, ndrift
vars == <<l, ref, dir, verdicts, nruns, ndrift>>
TInit == l = 1 /\ ref = << >> /\ dir = {} /\ verdicts = {} /\ nruns = 0 /\ ndrift = 0

Obs(e) == <<e.status, e.out, e.outlen>>
Put(f, k, v) == [x \in (DOMAIN f) \cup {k} |-> IF x = k THEN v ELSE f[x]]

EvCase ==
  /\ Trace[l].ev = "case"
  /\ ref' = << >> /\ dir' = {}
  /\ UNCHANGED <<verdicts, nruns, ndrift>>

\* which other invocation's reference output was returned instead
Culprit(e) == LET ks == {k \in DOMAIN ref : ref[k] = Obs(e) /\ k # e.key} IN
              IF ks = {} THEN "(matches no reference output of this history)" ELSE "returned the output of: " \o (CHOOSE k \in ks : TRUE)

EvRun ==
  /\ Trace[l].ev = "run"
  /\ LET e == Trace[l] IN
     IF e.nocache
     THEN /\ ref' = IF e.key \in DOMAIN ref THEN ref ELSE Put(ref, e.key, Obs(e))
          /\ verdicts' = verdicts \cup
               (IF e.hang THEN {<<l, e.case, e.key, "hang", "-">>} ELSE {})
               \cup (IF e.key \in DOMAIN ref /\ ref[e.key] # Obs(e) THEN {<<l, e.case, e.key, "nondeterministic-uncached", "-">>} ELSE {})
          /\ UNCHANGED <<dir, ndrift>>
     ELSE LET known == e.key \in DOMAIN ref
              hit == e.key \in dir
              ok == known /\ ref[e.key] = Obs(e)
              succeeds == known /\ ref[e.key][1] = 0
          IN /\ verdicts' = verdicts \cup
                  (IF e.hang THEN {<<l, e.case, e.key, "hang", "-">>} ELSE {})
                  \cup (IF known /\ ~ok
                        THEN {<<l, e.case, e.key,
                                IF ref[e.key][1] # e.status THEN "cached-status-differs" ELSE "cached-output-differs",
                                Culprit(e)>>}
                        ELSE {})
             /\ dir' = IF hit THEN (IF e.sink # "stdout" THEN dir \ {e.key} ELSE dir)
                       ELSE IF succeeds THEN dir \cup {e.key} ELSE dir
             /\ ndrift' = ndrift + (IF Cardinality(dir') # e.nentries THEN 1 ELSE 0)
             /\ UNCHANGED ref
  /\ nruns' = nruns + 1

Consume == l <= N /\ (EvCase \/ EvRun) /\ l' = l + 1

Finish ==
  /\ l = N + 1
  /\ LET vseq == SetToSeq(verdicts) IN
     ndJsonSerialize(IOEnv.VERDICTS,
        <<[consumed |-> l - 1, ops |-> nruns, nverdicts |-> Cardinality(verdicts), drift |-> ndrift]>>
        \o [j \in 1..Len(vseq) |-> [line |-> vseq[j][1], case |-> vseq[j][2], op |-> vseq[j][3],
                                     rule |-> vseq[j][4], label |-> vseq[j][5], calc |-> "-"]])
  /\ l' = l + 1 /\ UNCHANGED <<ref, dir, verdicts, nruns, ndrift>>
TNext == Consume \/ Finish
TSpec == TInit /\ [][TNext]_vars
TraceAccepted == TLCGet("stats").diameter = N + 2
=============================================================================
