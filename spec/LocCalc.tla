----------------------------- MODULE LocCalc -----------------------------
(***************************************************************************)
(* Calculus layer: a transcription of location.go, one operator per Go    *)
(* method and one disjunct per `if`.  This is the model of what the code  *)
(* DOES (including what it does wrong); the abstract layer (Loc, Seq)      *)
(* says what the properties DEMAND.  Deviations between the two are named *)
(* Dev_* predicates at the bottom of this module.                          *)
(***************************************************************************)
EXTENDS Loc

\* The deviations of the code from the abstract layer that are currently
\* present in the implementation (pinned by the repository's own tests or
\* not repairable by a small patch; see known_findings.json).  The calculus
\* layer behaves like the code for D \in Devs and like the repaired rule
\* otherwise, so that "the deviation explains this mismatch" is decidable by
\* re-evaluating with Devs \ {D}.
\*   "RgPt"     Join drops a Point that abuts the end of the preceding Range
\*   "BwRev"    Between(g).Reverse(L) = Between(L-1-g) instead of L-g
\*   "BwOrigin" Expand(0,n), used to re-origin a whole table (Rotate, guest
\*              features of Insert/Embed, later pieces of Concat), leaves a
\*              site at gap 0 where it was (Between.Expand is pinned by
\*              TestLocationShift/TestLocationExpand)
\*   "WrapSlice" a wrap-around Slice is Rotate + Slice: a range that the
\*              rotation splits and whose leading piece is then cut off
\*              entirely loses the partial marker of that end
CONSTANT Devs

\* input predicate of "WrapSlice": window [a1,L)+[0,b1), some range part
\* s..e with s < a1 < e (split by the rotation) and b1 <= s (piece [s,a1) cut)
RECURSIVE WrapSplitPart(_, _, _)
WrapSplitPart(t, a1, b1) ==
  CASE t.k = "rg" -> t.s < a1 /\ a1 < t.e /\ b1 <= t.s
    [] t.k \in {"jn", "od"} -> \E j \in 1..Len(t.xs) : WrapSplitPart(t.xs[j], a1, b1)
    [] t.k = "cp" -> WrapSplitPart(t.x, a1, b1)
    [] OTHER -> FALSE

(***************************************************************************)
(* LocationList.Push / Join / Order   (location.go 587-726, 824-853)       *)
(***************************************************************************)
ReplaceLast(list, x) == [list EXCEPT ![Len(list)] = x]

RECURSIVE Push(_, _, _)
RECURSIVE PushAll(_, _, _)
RECURSIVE JoinC(_)

PushAll(list, xs, force) ==
  IF xs = <<>> THEN list ELSE PushAll(Push(list, Head(xs), force), Tail(xs), force)

Push(list, loc, force) ==
  IF loc.k = "jn" THEN PushAll(list, loc.xs, force)
  ELSE IF list = <<>> THEN <<loc>>
  ELSE LET v == list[Len(list)] IN
    CASE v.k = "bw" /\ loc.k = "bw" /\ v.p = loc.p -> list
      [] v.k = "bw" /\ loc.k = "pt" /\ v.p = loc.p -> ReplaceLast(list, loc)
      [] v.k = "bw" /\ loc.k = "rg" /\ v.p = loc.s -> ReplaceLast(list, loc)
      [] v.k = "pt" /\ loc.k = "bw" /\ v.p + 1 = loc.p -> list
      [] v.k = "pt" /\ loc.k = "pt" /\ v.p = loc.p -> list
      [] v.k = "pt" /\ loc.k = "rg" /\ v.p = loc.s -> ReplaceLast(list, loc)
      [] v.k = "rg" /\ loc.k = "bw" /\ v.e = loc.p -> list
      [] v.k = "rg" /\ loc.k = "pt" /\ v.e = loc.p /\ "RgPt" \in Devs -> list
      [] v.k = "rg" /\ loc.k = "rg" /\ ((v.p3 /\ loc.p5) \/ force) /\ v.e = loc.s ->
           ReplaceLast(list, Rg(v.s, loc.e, v.p5, loc.p3))
      [] v.k = "cp" /\ loc.k = "cp" ->
           ReplaceLast(list, Cp(JoinC(Push(<<loc.x>>, v.x, force))))
      [] OTHER -> Append(list, loc)

\* gts.Join: reduce with force = TRUE, repeated until the list stops
\* shrinking; a single survivor is returned bare
RECURSIVE ReduceFix(_)
ReduceFix(list) ==
  IF Len(list) <= 1 THEN list
  ELSE LET next == PushAll(<<>>, list, TRUE)
       IN IF Len(next) = Len(list) THEN next ELSE ReduceFix(next)
JoinC(xs) ==
  LET list == ReduceFix(PushAll(<<>>, xs, TRUE))
  IN IF Len(list) = 1 THEN list[1] ELSE Jn(list)

RECURSIVE FlattenOrd(_)
FlattenOrd(xs) ==
  IF xs = <<>> THEN <<>>
  ELSE (IF Head(xs).k = "od" THEN FlattenOrd(Head(xs).xs) ELSE <<Head(xs)>>) \o FlattenOrd(Tail(xs))

OrderC(xs) ==
  LET list == FlattenOrd(xs)
  IN IF Len(list) = 1 THEN list[1] ELSE Od(list)

(***************************************************************************)
(* Expand / Shift / Normalize / Reverse / Complement per kind              *)
(***************************************************************************)
RECURSIVE ExpandLoc(_, _, _)
ExpandLoc(t, i, n) ==
  CASE t.k = "bw" -> IF i < t.p THEN Bw(IMax(i, t.p + n)) ELSE t
    [] t.k = "pt" ->
         IF n < 0 /\ i <= t.p /\ t.p < i - n THEN Bw(i)
         ELSE IF (0 <= n /\ i <= t.p) \/ (n < 0 /\ i < t.p) THEN Pt(IMax(i, t.p + n))
         ELSE t
    [] t.k = "rg" ->
         IF n = 0 THEN t ELSE
         LET j  == i - n
             a  == IF n < 0 /\ i <= t.s /\ t.s < j THEN TRUE ELSE t.p5
             b  == IF n < 0 /\ i < t.e /\ t.e <= j THEN TRUE ELSE t.p3
             s2 == IF (0 <= n /\ i <= t.s) \/ (n < 0 /\ i < t.s) THEN IMax(i, t.s + n) ELSE t.s
             e2 == IF (0 <= n /\ i < t.e) \/ (n < 0 /\ i <= t.e) THEN IMax(i, t.e + n) ELSE t.e
         IN IF s2 = e2 THEN Bw(s2) ELSE Rg(s2, e2, a, b)
    [] t.k = "am" ->
         IF n = 0 THEN t ELSE
         LET s2 == IF (0 <= n /\ i <= t.s) \/ (n < 0 /\ i < t.s) THEN IMax(i, t.s + n) ELSE t.s
             e2 == IF (0 <= n /\ i < t.e) \/ (n < 0 /\ i <= t.e) THEN IMax(i, t.e + n) ELSE t.e
         IN IF s2 = e2 THEN Bw(s2) ELSE Am(s2, e2)
    [] t.k = "jn" -> JoinC([j \in 1..Len(t.xs) |-> ExpandLoc(t.xs[j], i, n)])
    [] t.k = "od" -> OrderC([j \in 1..Len(t.xs) |-> ExpandLoc(t.xs[j], i, n)])
    [] t.k = "cp" -> Cp(ExpandLoc(t.x, i, n))
    [] OTHER -> t

RECURSIVE ShiftLoc(_, _, _)
ShiftLoc(t, i, n) ==
  CASE t.k = "bw" -> ExpandLoc(t, i, n)
    [] t.k = "pt" -> ExpandLoc(t, i, n)
    [] t.k = "rg" ->
         IF n = 0 THEN t
         ELSE IF n < 0 THEN ExpandLoc(t, i, n)
         ELSE IF t.s < i /\ i < t.e
              THEN JoinC(<<Rg(t.s, i, t.p5, FALSE), Rg(i + n, t.e + n, FALSE, t.p3)>>)
              ELSE Rg(IF i <= t.s THEN t.s + n ELSE t.s, IF i < t.e THEN t.e + n ELSE t.e, t.p5, t.p3)
    [] t.k = "am" ->
         IF n = 0 THEN t
         ELSE IF n < 0 THEN ExpandLoc(t, i, n)
         ELSE IF t.s < i /\ i < t.e
              THEN OrderC(<<Am(t.s, i), Am(i + n, t.e + n)>>)
              ELSE Am(IF i <= t.s THEN t.s + n ELSE t.s, IF i < t.e THEN t.e + n ELSE t.e)
    [] t.k = "jn" -> JoinC([j \in 1..Len(t.xs) |-> ShiftLoc(t.xs[j], i, n)])
    [] t.k = "od" -> OrderC([j \in 1..Len(t.xs) |-> ShiftLoc(t.xs[j], i, n)])
    [] t.k = "cp" -> Cp(ShiftLoc(t.x, i, n))
    [] OTHER -> t

RECURSIVE NormalizeLoc(_, _)
NormalizeLoc(t, L) ==
  CASE t.k = "bw" -> Bw(t.p % L)
    [] t.k = "pt" -> Pt(t.p % L)
    [] t.k = "rg" ->
         IF t.e - t.s = L THEN ExpandLoc(t, 0, 0 - t.s)
         ELSE LET s2 == t.s % L
                  e2 == ((t.e - 1) % L) + 1
              IN IF s2 < e2 THEN Rg(s2, e2, t.p5, t.p3)
                 ELSE JoinC(<<Rg(s2, L, t.p5, FALSE), Rg(0, e2, FALSE, t.p3)>>)
    [] t.k = "am" -> Am(t.s % L, ((t.e - 1) % L) + 1)
    [] t.k = "jn" -> JoinC([j \in 1..Len(t.xs) |-> NormalizeLoc(t.xs[j], L)])
    [] t.k = "od" -> OrderC([j \in 1..Len(t.xs) |-> NormalizeLoc(t.xs[j], L)])
    [] t.k = "cp" -> Cp(NormalizeLoc(t.x, L))
    [] OTHER -> t

RECURSIVE ReverseLoc(_, _)
ReverseLoc(t, L) ==
  CASE t.k = "bw" -> IF "BwRev" \in Devs THEN Bw(L - 1 - t.p) ELSE Bw(L - t.p)
    [] t.k = "pt" -> Pt(L - 1 - t.p)
    [] t.k = "rg" -> Rg(L - t.e, L - t.s,
                        IF t.p5 = t.p3 THEN t.p5 ELSE t.p3,
                        IF t.p5 = t.p3 THEN t.p3 ELSE t.p5)
    [] t.k = "am" -> Am(L - t.e, L - t.s)
    [] t.k = "jn" -> JoinC([j \in 1..Len(t.xs) |-> ReverseLoc(t.xs[Len(t.xs) + 1 - j], L)])
    [] t.k = "od" -> OrderC([j \in 1..Len(t.xs) |-> ReverseLoc(t.xs[Len(t.xs) + 1 - j], L)])
    [] t.k = "cp" -> Cp(ReverseLoc(t.x, L))
    [] OTHER -> t

\* location part of gts.Rotate: Expand(0,n).Normalize(L); the repaired rule
\* reads a site at gap 0 of a circular sequence as the site at gap L
RECURSIVE OriginToEnd(_, _)
OriginToEnd(t, L) ==
  CASE t.k = "bw" -> IF t.p = 0 THEN Bw(L) ELSE t
    [] t.k = "jn" -> Jn([j \in 1..Len(t.xs) |-> OriginToEnd(t.xs[j], L)])
    [] t.k = "od" -> Od([j \in 1..Len(t.xs) |-> OriginToEnd(t.xs[j], L)])
    [] t.k = "cp" -> Cp(OriginToEnd(t.x, L))
    [] OTHER -> t
RotLoc(t, n, L) ==
  NormalizeLoc(ExpandLoc(IF "BwOrigin" \in Devs \/ n = 0 THEN t ELSE OriginToEnd(t, L), 0, n), L)

\* offsetting a whole table by n (guest features in Insert/Embed, later pieces
\* in Concat): the code uses Expand(0, n), which leaves a site at gap 0 behind
RECURSIVE AddAll(_, _)
AddAll(t, n) ==
  CASE t.k = "bw" -> Bw(t.p + n)
    [] t.k = "pt" -> Pt(t.p + n)
    [] t.k = "rg" -> Rg(t.s + n, t.e + n, t.p5, t.p3)
    [] t.k = "am" -> Am(t.s + n, t.e + n)
    [] t.k = "jn" -> JoinC([j \in 1..Len(t.xs) |-> AddAll(t.xs[j], n)])
    [] t.k = "od" -> OrderC([j \in 1..Len(t.xs) |-> AddAll(t.xs[j], n)])
    [] t.k = "cp" -> Cp(AddAll(t.x, n))
    [] OTHER -> t
OffsetLoc(t, n) == IF "BwOrigin" \in Devs \/ n = 0 THEN ExpandLoc(t, 0, n) ELSE AddAll(t, n)

ComplementLoc(t) == IF t.k = "cp" THEN t.x ELSE Cp(t)

(***************************************************************************)
(* asComplete (location.go 346-364)                                        *)
(***************************************************************************)
RECURSIVE AsComplete(_)
AsComplete(t) ==
  CASE t.k = "rg" -> Rg(t.s, t.e, FALSE, FALSE)
    [] t.k = "jn" -> Jn([j \in 1..Len(t.xs) |-> AsComplete(t.xs[j])])
    [] t.k = "od" -> Od([j \in 1..Len(t.xs) |-> AsComplete(t.xs[j])])
    [] OTHER -> t

(***************************************************************************)
(* LocationWithin / LocationOverlap / LocationLess / CheckStrand           *)
(***************************************************************************)
Span(t) ==
  CASE t.k = "bw" -> <<t.p, t.p>>
    [] t.k = "pt" -> <<t.p, t.p + 1>>
    [] t.k \in {"rg", "am"} -> <<t.s, t.e>>
    [] OTHER      -> <<0, 0>>     \* nil / unknown values (reachable through defects)

RangeWithin(s, e, l, u) ==
  LET s1 == IMin(s, e)  e1 == IMax(s, e)  l1 == IMin(l, u)  u1 == IMax(l, u)
  IN l1 <= s1 /\ e1 <= u1
RangeOverlap(s, e, l, u) ==
  LET s1 == IMin(s, e)  e1 == IMax(s, e)  l1 == IMin(l, u)  u1 == IMax(l, u)
  IN s1 < u1 /\ l1 < e1

RECURSIVE Within(_, _, _)
Within(t, l, u) ==
  CASE t.k = "cp" -> Within(t.x, l, u)
    [] t.k \in {"jn", "od"} -> \A j \in 1..Len(t.xs) : Within(t.xs[j], l, u)
    [] t.k \in {"bw", "pt", "rg", "am"} -> RangeWithin(Span(t)[1], Span(t)[2], l, u)
    [] OTHER -> FALSE

RECURSIVE Overlap(_, _, _)
Overlap(t, l, u) ==
  CASE t.k = "cp" -> Overlap(t.x, l, u)
    [] t.k \in {"jn", "od"} -> \E j \in 1..Len(t.xs) : Overlap(t.xs[j], l, u)
    [] t.k \in {"bw", "pt", "rg", "am"} -> RangeOverlap(Span(t)[1], Span(t)[2], l, u)
    [] OTHER -> FALSE

RangeCompare(s1, e1, s2, e2) ==
  LET a1 == IMin(s1, e1)  b1 == IMax(s1, e1)  a2 == IMin(s2, e2)  b2 == IMax(s2, e2)
  IN CASE a1 < a2 -> -1
       [] a2 < a1 -> 1
       [] b1 < b2 -> -1
       [] b2 < b1 -> 1
       [] OTHER   -> 0

NPartial(t) == IF t.k = "rg" THEN (IF t.p5 THEN 1 ELSE 0) + (IF t.p3 THEN 1 ELSE 0) ELSE 0

RECURSIVE Less(_, _)
Less(a, b) ==
  IF a.k = "cp" THEN Less(a.x, b)
  ELSE IF b.k = "cp" THEN Less(a, b.x)
  ELSE IF a.k \in {"jn", "od"} THEN \E j \in 1..Len(a.xs) : Less(a.xs[j], b)
  ELSE IF b.k \in {"jn", "od"} THEN \A j \in 1..Len(b.xs) : Less(a, b.xs[j])
  ELSE IF a.k \notin {"bw", "pt", "rg", "am"} THEN FALSE
  ELSE IF b.k \notin {"bw", "pt", "rg", "am"} THEN TRUE
  ELSE LET c == RangeCompare(Span(a)[1], Span(a)[2], Span(b)[1], Span(b)[2])
       IN IF c # 0 THEN c < 0 ELSE NPartial(a) < NPartial(b)

RECURSIVE Strand(_)
Strand(t) ==
  CASE t.k = "cp" -> "rev"
    [] t.k \in {"jn", "od"} ->
         LET ss == {Strand(t.xs[j]) : j \in 1..Len(t.xs)}
         IN IF ss \subseteq {"fwd"} THEN "fwd" ELSE IF ss \subseteq {"rev"} THEN "rev" ELSE "both"
    [] OTHER -> "fwd"

(***************************************************************************)
(* Built(t): the value the public constructors produce for a raw term     *)
(* (Join / Order reductions applied bottom-up)                             *)
(***************************************************************************)
RECURSIVE Built(_)
Built(t) ==
  CASE t.k = "jn" -> JoinC([j \in 1..Len(t.xs) |-> Built(t.xs[j])])
    [] t.k = "od" -> OrderC([j \in 1..Len(t.xs) |-> Built(t.xs[j])])
    [] t.k = "cp" -> ComplementLoc(Built(t.x))
    [] OTHER -> t

=============================================================================
