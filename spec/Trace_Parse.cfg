SPECIFICATION TSpec
CONSTANT Devs = {"LenientLines"}
POSTCONDITION TraceAccepted
CHECK_DEADLOCK FALSE
