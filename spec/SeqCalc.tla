----------------------------- MODULE SeqCalc -----------------------------
(***************************************************************************)
(* Calculus layer for sequence.go / feature.go: the library operations    *)
(* composed exactly as the Go code composes them, on RAW states            *)
(*   [res, topo, feats : Seq([key,label,loc,props]), refs, region]         *)
(* (the same shape the harness logs).  MC_Seq checks that this layer       *)
(* refines the abstract layer (Seq) on a bounded universe; Trace_Seq uses  *)
(* it to recognise known deviations exactly.                               *)
(***************************************************************************)
EXTENDS Seq

RawFeat(f, loc) == [key |-> f.key, label |-> f.label, loc |-> loc, props |-> f.props]

\* FeatureSlice.Insert (feature.go 290-307): after the source block, binary
\* search (sort.Search) for the first element the new location is Less than
RECURSIVE BSearch(_, _, _, _)
BSearch(ff, f, lo, hi) ==   \* indices are 0-based offsets into ff (1-based Seq)
  IF lo >= hi THEN lo
  ELSE LET h == (lo + hi) \div 2
       IN IF ~Less(f.loc, ff[h + 1].loc) THEN BSearch(ff, f, h + 1, hi) ELSE BSearch(ff, f, lo, h)

RECURSIVE SrcPrefix(_, _)
SrcPrefix(ff, j) == IF j < Len(ff) /\ ff[j + 1].key = "source" THEN SrcPrefix(ff, j + 1) ELSE j

FInsert(ff, f) ==
  LET i0 == SrcPrefix(ff, 0)
      i  == IF f.key = "source" THEN i0 ELSE BSearch(ff, f, i0, Len(ff))
  IN SubSeq(ff, 1, i) \o <<f>> \o SubSeq(ff, i + 1, Len(ff))

RECURSIVE FInsertAll(_, _)
FInsertAll(ff, gs) == IF gs = <<>> THEN ff ELSE FInsertAll(FInsert(ff, Head(gs)), Tail(gs))

MapLoc(ff, Op(_)) == [j \in 1..Len(ff) |-> RawFeat(ff[j], Op(ff[j].loc))]

WithRes(S, res, feats) == [res |-> res, topo |-> S.topo, feats |-> feats, refs |-> S.refs, region |-> S.region]

InsertC(H, i, G) ==
  LET n == Len(G.res)
      hs == MapLoc(H.feats, LAMBDA t : ShiftLoc(t, i, n))
      gs == MapLoc(G.feats, LAMBDA t : OffsetLoc(t, i))
  IN WithRes(H, Splice(H.res, i, G.res), FInsertAll(FInsertAll(<<>>, hs), gs))

EmbedC(H, i, G) ==
  LET n == Len(G.res)
      hs == MapLoc(H.feats, LAMBDA t : ExpandLoc(t, i, n))
      gs == MapLoc(G.feats, LAMBDA t : OffsetLoc(t, i))
  IN WithRes(H, Splice(H.res, i, G.res), FInsertAll(FInsertAll(<<>>, hs), gs))

DeleteC(S, i, n) ==
  WithRes(S, Cut(S.res, i, n), MapLoc(S.feats, LAMBDA t : ExpandLoc(t, i, 0 - n)))

EraseC(S, i, n) ==
  LET keep == SelectSeq(S.feats, LAMBDA f : f.key = "source" \/ ~Within(f.loc, i, i + n))
  IN DeleteC(WithRes(S, S.res, keep), i, n)

RotateC(S, n0) ==
  LET L == Len(S.res)
      n == ((n0 % L) + L) % L
      fs == MapLoc(S.feats, LAMBDA t : RotLoc(t, n, L))
  IN WithRes(S, Rot(S.res, n), FInsertAll(<<>>, fs))

\* GenBankFields.Slice (seqio/genbank.go 66-117): references whose base ranges
\* overlap the window are clipped and re-based, the others are dropped,
\* references without parsable ranges are kept; then renumbered
PrintRefInfo(rs) ==
  "(bases " \o JoinStr([j \in 1..Len(rs) |-> ToString(rs[j][1] + 1) \o " to " \o ToString(rs[j][2])], "; ") \o ")"
RefsSliceC(refs, a1, b1) ==
  LET clip(r) == LET ol == SelectSeq(r.ranges, LAMBDA x : a1 < b1 /\ RangeOverlap(x[1], x[2], a1, b1))
                     cl == [j \in 1..Len(ol) |-> <<IMax(0, ol[j][1] - a1), IMin(b1 - a1, ol[j][2] - a1)>>]
                 IN [num |-> r.num, info |-> PrintRefInfo(cl), ranged |-> TRUE, ranges |-> cl]
      kept == SelectSeq([j \in 1..Len(refs) |-> IF refs[j].ranged THEN clip(refs[j]) ELSE refs[j]],
                        LAMBDA r : ~r.ranged \/ r.ranges # <<>>)
  IN [j \in 1..Len(kept) |-> [kept[j] EXCEPT !.num = j]]

RECURSIVE SliceC(_, _, _)
SliceC(S, a, b) ==
  LET L == Len(S.res)
      a1 == NormIdx(a, L)
      b1 == NormIdx(b, L)
  IN IF b1 < a1 THEN SliceC(RotateC(S, 0 - a1), 0, L - a1 + b1)
     ELSE LET keep == SelectSeq(S.feats, LAMBDA f : Overlap(f.loc, a1, b1))
              fs == [j \in 1..Len(keep) |->
                       LET loc == ExpandLoc(ExpandLoc(keep[j].loc, b1, b1 - L), 0, 0 - a1)
                       IN RawFeat(keep[j], IF keep[j].key = "source" THEN AsComplete(loc) ELSE loc)]
          IN [res |-> SubSeq(S.res, a1 + 1, b1), topo |-> IF S.topo = "na" THEN "na" ELSE "linear",
              feats |-> fs, refs |-> IF S.topo = "na" THEN S.refs ELSE RefsSliceC(S.refs, a1, b1),
              \* GenBankFields.Slice records the window (refs are clipped there
              \* too; transcribed in GenBank.tla); other metadata has no region
              region |-> IF S.topo = "na" THEN S.region ELSE <<a1, b1>>]

ReverseC(S) ==
  LET L == Len(S.res)
      fs == MapLoc(S.feats, LAMBDA t : ReverseLoc(t, L))
  IN WithRes(S, RevSeq(S.res), FInsertAll(<<>>, fs))

ComplementC(S) ==
  WithRes(S, [j \in 1..Len(S.res) |-> CompOf(S.res[j])], MapLoc(S.feats, LAMBDA t : ComplementLoc(t)))

TranscribeC(S) == WithRes(S, [j \in 1..Len(S.res) |-> TransOf(S.res[j])], S.feats)

RECURSIVE ConcatFrom(_, _, _)
ConcatFrom(res, ff, rest) ==
  IF rest = <<>> THEN <<res, ff>>
  ELSE LET T == Head(rest)
           gs == MapLoc(T.feats, LAMBDA t : OffsetLoc(t, Len(res)))
       IN ConcatFrom(res \o T.res, FInsertAll(ff, gs), Tail(rest))

ConcatC(Ss) ==
  IF Len(Ss) = 1 THEN Ss[1]
  ELSE LET r == ConcatFrom(Ss[1].res, Ss[1].feats, Tail(Ss))
       IN WithRes(Ss[1], r[1], r[2])

(***************************************************************************)
(* gts.Repair (feature.go 22-75), as the code is: group by key+qualifiers, *)
(* sort the group's locations (sort.Sort: insertion sort for <= 12         *)
(* elements), push them through LocationList.Push (force only for source), *)
(* rewrite the group only if that made it shorter.                         *)
(***************************************************************************)
RECURSIVE InsSortStep(_, _)
\* move element at index i down while Less(it, previous)
InsSortStep(xs, j) ==
  IF j > 1 /\ Less(xs[j], xs[j - 1])
  THEN InsSortStep([xs EXCEPT ![j] = xs[j - 1], ![j - 1] = xs[j]], j - 1)
  ELSE xs
RECURSIVE InsSort(_, _)
InsSort(xs, i) == IF i > Len(xs) THEN xs ELSE InsSort(InsSortStep(xs, i), i + 1)
SortLocs(xs) == InsSort(xs, 2)

GroupKey(f) == <<f.key, f.props>>

RepairC(S) ==
  LET ff == S.feats
      n == Len(ff)
      keys == {GroupKey(ff[j]) : j \in 1..n}
      idx(k) == SelectSeq([j \in 1..n |-> j], LAMBDA j : GroupKey(ff[j]) = k)
      merged(k) == PushAll(<<>>, SortLocs([q \in 1..Len(idx(k)) |-> ff[idx(k)[q]].loc]), k[1] = "source")
      \* new location of feature j, or "drop"
      newLoc(j) ==
        LET k == GroupKey(ff[j])
            ix == idx(k)
            ml == merged(k)
            pos == CHOOSE q \in 1..Len(ix) : ix[q] = j
        IN IF Len(ml) < Len(ix)
           THEN (IF pos <= Len(ml) THEN ml[pos] ELSE [k |-> "drop"])
           ELSE ff[j].loc
      kept == SelectSeq([j \in 1..n |-> j], LAMBDA j : newLoc(j).k # "drop")
  IN WithRes(S, S.res, [q \in 1..Len(kept) |-> RawFeat(ff[kept[q]], newLoc(kept[q]))])

\* input predicates of the Repair deviations, for the class group of label lab
RECURSIVE HasJoin(_)
HasJoin(t) == t.k = "jn" \/ (t.k = "cp" /\ HasJoin(t.x))
GroupOf(S, lab) ==
  LET fs == SelectSeq(S.feats, LAMBDA f : f.label = lab)
  IN IF fs = <<>> THEN <<>> ELSE SelectSeq(S.feats, LAMBDA f : GroupKey(f) = GroupKey(fs[1]))
RepairCpGroup(S, lab) == Cardinality({j \in 1..Len(GroupOf(S, lab)) : GroupOf(S, lab)[j].loc.k = "cp"}) >= 2
RepairJnGroup(S, lab) == Len(GroupOf(S, lab)) >= 2 /\ \E j \in 1..Len(GroupOf(S, lab)) : GroupOf(S, lab)[j].loc.k = "jn"

=============================================================================
