SPECIFICATION TSpec
CONSTANT Devs = {"MatchK"}
POSTCONDITION TraceAccepted
CHECK_DEADLOCK FALSE
