---------------------------- MODULE MC_CacheDir ----------------------------
(* Bounded check of CacheDir.tla and generator: every maximal history of    *)
(* MaxOps operations is emitted once (sampled by Stride/Offset).            *)
EXTENDS CacheDir, Json, IOUtils, CSV
CONSTANTS Stride, Offset
J == TLCGet("distinct")
Sampled == (J + (J \div Stride) + (J \div (Stride * Stride))) % Stride = Offset % Stride
EmitCase ==
  (Len(hist) = MaxOps /\ "CASES" \in DOMAIN IOEnv /\ Sampled) =>
     CSVWrite("%1$s", <<ToJson([id |-> "cd" \o ToString(J), fam |-> "cachedir", ops |-> hist])>>, IOEnv.CASES)
=============================================================================
