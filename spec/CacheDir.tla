------------------------------ MODULE CacheDir ------------------------------
(***************************************************************************)
(* The cache directory as a managed resource (beyond the listed            *)
(* properties): what `gts cache list`, `gts cache purge` and `gts cache    *)
(* path` do to and say about the directory that the cached subcommands     *)
(* fill.                                                                   *)
(*                                                                         *)
(* State: dir, the set of invocation keys that have an entry.              *)
(*   Run(k)      a cached run to stdout: stores k's entry on a miss        *)
(*   RunFile(k)  a cached run with -o FILE: a hit consumes the entry (the  *)
(*               entry is renamed to FILE), a miss stores it               *)
(*   List        prints one line per entry, named by its leaf hash, and a  *)
(*               Total line; changes nothing                               *)
(*   Purge       removes every entry                                       *)
(*   Path        prints the directory; changes nothing                     *)
(* Every entry has a NAME that is a function of the key alone (stable      *)
(* across purges) and injective on keys.                                   *)
(***************************************************************************)
EXTENDS Integers, Sequences, FiniteSets, TLC

CONSTANTS NKeys, MaxOps
VARIABLES dir, hist
vars == <<dir, hist>>
Keys == 1..NKeys

Apply(d, o) ==
  CASE o.op = "run" -> d \cup {o.k}
    [] o.op = "runfile" -> IF o.k \in d THEN d \ {o.k} ELSE d \cup {o.k}
    [] o.op = "purge" -> {}
    [] OTHER -> d

Init == dir = {} /\ hist = <<>>
Step(o) == dir' = Apply(dir, o) /\ hist' = Append(hist, o)
Next ==
  /\ Len(hist) < MaxOps
  /\ \/ \E k \in Keys : Step([op |-> "run", k |-> k]) \/ Step([op |-> "runfile", k |-> k])
     \/ Step([op |-> "list", k |-> 0]) \/ Step([op |-> "purge", k |-> 0]) \/ Step([op |-> "path", k |-> 0])
Spec == Init /\ [][Next]_vars

Last == hist'[Len(hist')]
TypeOK == dir \subseteq Keys
PurgeEmpties == [][(hist' # hist /\ Last.op = "purge") => dir' = {}]_vars
ObserversPure == [][(hist' # hist /\ Last.op \in {"list", "path"}) => dir' = dir]_vars
RunStores == [][(hist' # hist /\ Last.op = "run") => Last.k \in dir']_vars
\* a run touches no entry but its own
RunLocal == [][(hist' # hist /\ Last.op \in {"run", "runfile"}) => dir' \ {Last.k} = dir \ {Last.k}]_vars
=============================================================================
