------------------------------ MODULE LocText ------------------------------
(***************************************************************************)
(* C06: location text round trip and join reduction.                       *)
(*                                                                         *)
(* There is no parser in TLA+: the parser is the code under test.  The     *)
(* specification supplies both sides of every comparison: PrintLoc of a    *)
(* known term before, Den / F5 / F3 of the logged tree after.              *)
(*   term event: raw term t, v = value built by the public constructors,   *)
(*               s = v.String(), v2 = parse(s), s2 = v2.String(),          *)
(*               rebuilt = constructors applied to v again                 *)
(*   str event : input string, v = parse(in), s1 = print(v),               *)
(*               v1 = parse(s1), s2 = print(v1)                            *)
(***************************************************************************)
EXTENDS LocCalc

NoRgPt   == INSTANCE LocCalc WITH Devs <- Devs \ {"RgPt"}

V(rule) == {rule}
If(c, vs) == IF c THEN vs ELSE {}

SameMeaning(a, b) == Den(a) = Den(b) /\ F5(a) = F5(b) /\ F3(a) = F3(b)

\* the reduction never changes the set or order of the denoted residues
ReductionOK(t, b) == Dedup(Den(b)) = Dedup(Den(t))

\* verdicts for a term event; `built` etc. are the logged (or calculated) trees
JudgeTerm(t, built, s, ok, v2, s2, rebuilt) ==
  If(~ReductionOK(t, built), V("reduction-den"))
  \cup If(PrintLoc(built) # s, V("print"))
  \cup If(~ok, V("reparse-rejected"))
  \cup If(ok /\ s2 # s, V("print-roundtrip"))
  \cup If(ok /\ ~SameMeaning(v2, built), V("den-roundtrip"))
  \cup If(rebuilt # built, V("not-idempotent"))

\* which deviation explains verdict v on raw term t, given that the calculus
\* layer predicts the observed built value exactly
ExplainsTerm(t, built, v) ==
  IF built # Built(t) THEN {}
  ELSE {D \in Devs :
          CASE D = "RgPt"     -> v \in {"reduction-den"} /\ ReductionOK(t, NoRgPt!Built(t))
            [] OTHER -> FALSE}

JudgeStr(ok, v, s1, ok1, v1, s2) ==
  IF ~ok THEN {}
  ELSE If(~ok1, V("s1-rejected"))
       \cup If(ok1 /\ s2 # s1, V("not-fixed-point"))
       \cup If(ok1 /\ PrintLoc(v) # s1, V("print"))

=============================================================================
