----------------------------- MODULE Trace_Parse -----------------------------
(* Trace validation for C07: every scan of a mutated file and every string   *)
(* handed to one of the small parsers is judged by Parse.tla:                *)
(*   Total        the outcome is values or an error - never a panic or hang  *)
(*   NoShortRead  values => every record has exactly the residues its LOCUS  *)
(*                line declares (and Len agrees with Bytes)                  *)
(*   Strict       an inconsistent or truncated GenBank text gives an error   *)
EXTENDS Parse, Json, IOUtils, SequencesExt
CONSTANT Devs   \* "LenientLines": unparseable lines inside a record are skipped (pinned by TestGenBankParser/pBAT5.txt)

Trace == ndJsonDeserialize(IOEnv.TRACE)
N == Len(Trace)
VARIABLES l, verdicts
vars == <<l, verdicts>>
TInit == l = 1 /\ verdicts = {}
If(c, vs) == IF c THEN vs ELSE {}

MutName(e) ==
  (IF e.muts = <<>> THEN "none" ELSE e.muts[1].a \o (IF e.muts[1].v = "" THEN "" ELSE ":" \o e.muts[1].v) \o "@" \o ToString(e.muts[1].i)
                                    \o (IF Len(e.muts) > 1 THEN "+" \o e.muts[2].a \o (IF e.muts[2].v = "" THEN "" ELSE ":" \o e.muts[2].v) ELSE ""))
  \o "/" \o e.byteop.k \o "/" \o e.variant

EvScan ==
  /\ Trace[l].ev = "scan"
  /\ LET e == Trace[l]
         genbank == e.seed \in {"s1", "s2"}
         ls == ApplyAll(Seeds[e.seed], e.muts)
         inc == IF e.seed = "s1" /\ e.byteop.k \in {"none", "pad", "split"} THEN Inconsistent(ls, 70) ELSE {}
         \* a cut that ends before the last line of the text truncates a record
         \* (a cut at column 0 right after a record terminator leaves complete records only)
         truncated == genbank /\ e.byteop.k = "trunc" /\ e.byteop.i < Len(ls) /\ e.variant # "trunc@0"
                      /\ ~(e.col = 0 /\ e.byteop.i > 1 /\ ls[e.byteop.i - 1].kind = "END")
         oneRecord == Len(e.declared) = 1 /\ Len(e.lens) = 1
         vs == If(e.outcome \in {"panic", "hang"}, {<<"total", e.outcome>>})
               \cup If(e.outcome = "values" /\ e.lens # e.reported, {<<"len-vs-bytes", "-">>})
               \cup If(e.outcome = "values" /\ genbank /\ oneRecord /\ e.lens[1] # e.declared[1] /\ e.seed = "s1" /\ ~ContigOnly(ls), {<<"short-read", "-">>})
               \cup UNION {If(e.outcome = "values", {<<"strict", c>>}) : c \in inc}
               \cup If(truncated /\ e.outcome = "values", {<<"strict", "truncated">>})
               \* the CONTIG-only seed with its CONTIG line damaged (and no ORIGIN block): nothing describes the
               \* 100 declared residues any more
               \cup If(e.seed = "s2" /\ e.byteop.k = "none" /\ e.outcome = "values" /\ "contigbad" \in Flags(ls)
                        /\ Cardinality({j \in 1..Len(ls) : ls[j].kind = "LOCUS"}) = 1 /\ (~\E j \in 1..Len(ls) : ls[j].kind = "ORIGIN")
                        \* (and no intact CONTIG line is left, e.g. a duplicate or the extra one of variant contig-extra)
                        /\ (~\E q \in 1..Len(ls) : (ls[q].kind = "CONTIG" /\ ls[q].flag # "contigbad") \/ ls[q].text = "CONTIG      join(X1:1..70)"),
                      {<<"strict", "contig">>})
         tag(v) == IF v[1] = "strict" /\ v[2] = "indent" /\ "LenientLines" \in Devs /\ e.seed = "s1" /\ OnlyLenientIndent(ls)
                   THEN "dev:LenientLines" ELSE "-"
     IN verdicts' = verdicts \cup {<<l, e.case, MutName(e), v[1], v[2], tag(v)>> : v \in vs}

EvStr ==
  /\ Trace[l].ev = "str"
  /\ LET e == Trace[l] IN
     verdicts' = verdicts \cup If(e.outcome \in {"panic", "hang"}, {<<l, e.case, e.g \o ":" \o e.s, "total", e.outcome, "-">>})
                          \* a curated inconsistent record read as values
                          \cup If(e.g = "gbtext-err" /\ e.outcome = "values", {<<l, e.case, e.g \o ":" \o e.s, "strict", "inconsistent-record", "-">>})

Consume == l <= N /\ (EvScan \/ EvStr) /\ l' = l + 1
Finish ==
  /\ l = N + 1
  /\ LET vseq == SetToSeq(verdicts) IN
     ndJsonSerialize(IOEnv.VERDICTS,
        <<[consumed |-> l - 1, ops |-> l - 1, nverdicts |-> Cardinality(verdicts)]>>
        \o [j \in 1..Len(vseq) |-> [line |-> vseq[j][1], case |-> vseq[j][2], op |-> vseq[j][3],
                                     rule |-> vseq[j][4], label |-> vseq[j][5], calc |-> vseq[j][6]]])
  /\ l' = l + 1 /\ UNCHANGED verdicts
TNext == Consume \/ Finish
TSpec == TInit /\ [][TNext]_vars
TraceAccepted == TLCGet("stats").diameter = N + 2
=============================================================================
