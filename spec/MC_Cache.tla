------------------------------ MODULE MC_Cache ------------------------------
(* Exhaustive check of the cache protocol under every single fault, and     *)
(* generator of the fault histories that the harness replays on the real    *)
(* cmd/cache code (one JSON line per reachable state, env CASES).           *)
EXTENDS Cache, Json, IOUtils, CSV

RECURSIVE HistId(_)
HistId(h) == IF h = <<>> THEN "" ELSE Head(h).a \o ToString(Head(h).n) \o (IF Len(h) > 1 THEN "." ELSE "") \o HistId(Tail(h))

EmitCase ==
  IF "CASES" \in DOMAIN IOEnv /\ pc # "none"
  THEN CSVWrite("%1$s", <<ToJson([id |-> HistId(hist), hist |-> hist])>>, IOEnv.CASES)
  ELSE TRUE
=============================================================================
