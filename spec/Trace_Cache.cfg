SPECIFICATION TSpec
CONSTANT MaxBlocks = 3
POSTCONDITION TraceAccepted
CHECK_DEADLOCK FALSE
