------------------------------ MODULE CacheCLI ------------------------------
(***************************************************************************)
(* C14: caching is transparent.                                            *)
(*                                                                         *)
(* An invocation is  [cmd, args, input, sink]  (args: positional arguments *)
(* and options in a canonical order; input: the primary input; sink:       *)
(* "stdout" or "file"; the extension of the file name, which selects the   *)
(* output format, counts as part of the invocation).  Its KEY is everything that may influence the *)
(* output: cmd, args and input - i.e. the whole invocation except the sink.*)
(* Ref(key) is what the command prints and how it exits without a cache    *)
(* (learned from --no-cache runs).                                         *)
(*                                                                         *)
(* The cache directory is a map key -> stored output.                      *)
(*   RunNoCache(inv)  prints Ref, directory unchanged                      *)
(*   RunCached(inv)   hit : prints the stored output, exit 0; a hit whose  *)
(*                          sink is a file removes the entry               *)
(*                    miss: prints Ref; the entry is stored only if the    *)
(*                          run succeeded                                  *)
(* Transparent: every cached run prints Ref(key) and exits like it, in     *)
(* every history over a shared directory.                                  *)
(***************************************************************************)
EXTENDS Integers, Sequences, FiniteSets, TLC

\* abstract machine used by the design check: keys 1..NKeys, Ref given
CONSTANTS NKeys, FailKeys     \* FailKeys: keys whose uncached run fails
VARIABLES dir, last, hlen
vars == <<dir, last, hlen>>

RefOut(k) == [status |-> IF k \in FailKeys THEN 1 ELSE 0, out |-> k]

Init == dir = << >> /\ last = [inv |-> 0, res |-> RefOut(1), cached |-> FALSE] /\ hlen = 0

Stored(k) == k \in DOMAIN dir

RunNoCache(k) ==
  /\ last' = [inv |-> k, res |-> RefOut(k), cached |-> FALSE]
  /\ UNCHANGED dir

RunCached(k, sink) ==
  IF Stored(k)
  THEN /\ last' = [inv |-> k, res |-> [status |-> 0, out |-> dir[k]], cached |-> TRUE]
       /\ dir' = IF sink = "file" THEN [x \in (DOMAIN dir) \ {k} |-> dir[x]] ELSE dir
  ELSE /\ last' = [inv |-> k, res |-> RefOut(k), cached |-> TRUE]
       /\ dir' = IF RefOut(k).status = 0 THEN [x \in (DOMAIN dir) \cup {k} |-> IF x = k THEN RefOut(k).out ELSE dir[x]] ELSE dir

Next ==
  /\ hlen < 4 /\ hlen' = hlen + 1
  /\ \E k \in 1..NKeys : RunNoCache(k) \/ \E s \in {"stdout", "file"} : RunCached(k, s)
Spec == Init /\ [][Next]_vars

Transparent == last.inv # 0 => last.res = RefOut(last.inv)
DirSound == \A k \in DOMAIN dir : dir[k] = RefOut(k).out /\ RefOut(k).status = 0

=============================================================================
