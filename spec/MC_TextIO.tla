----------------------------- MODULE MC_TextIO -----------------------------
(* Design check (layout arithmetic) and generator for C16 / C17.            *)
EXTENDS TextIO, Json, IOUtils, SequencesExt, CSV
CONSTANTS Mode, MinN, MaxN, FullTo, Batch, Stride, Offset

NItems == (MaxN - MinN + 1 + Batch - 1) \div Batch
Picked == SelectSeq([j \in 1..NItems |-> j], LAMBDA j : (j + (j \div Stride) + (j \div (Stride * Stride))) % Stride = Offset % Stride)
Descs == <<"", "plain", "two words here", "with > inside", " leading and trailing ", "tab\there",
           "identity 100%", "50% GC %s %d %v", "back\\slash and \"quotes\"", "semi;colon, comma | pipe", ">marked", ">>two markers", "> blank after marker">>
BatchJson(b) ==
  LET lo == MinN + (b - 1) * Batch
      hiN == IF lo + Batch - 1 > MaxN THEN MaxN ELSE lo + Batch - 1
  IN IF Mode = "origin"
     THEN [id |-> "or" \o ToString(MinN) \o "." \o ToString(b), fam |-> "origin", ns |-> [j \in 1..(hiN - lo + 1) |-> lo + j - 1], fullto |-> FullTo]
     ELSE [id |-> "fa" \o ToString(MinN) \o "." \o ToString(b), fam |-> "fasta", ns |-> [j \in 1..(hiN - lo + 1) |-> lo + j - 1], descs |-> Descs]

VARIABLES lo, hi, done
vars == <<lo, hi, done>>
Init == lo = 1 /\ hi = Len(Picked) /\ done = FALSE
Split ==
  /\ lo < hi
  /\ LET mid == (lo + hi) \div 2 IN \/ (lo' = lo /\ hi' = mid) \/ (lo' = mid + 1 /\ hi' = hi)
  /\ done' = FALSE
Emit ==
  /\ lo = hi /\ ~done
  /\ IF "CASES" \in DOMAIN IOEnv THEN CSVWrite("%1$s", <<ToJson(BatchJson(Picked[lo]))>>, IOEnv.CASES) ELSE TRUE
  /\ done' = TRUE /\ UNCHANGED <<lo, hi>>
Next == Split \/ Emit
Spec == Init /\ [][Next]_vars

\* the closed forms agree with the layout for every n of the batch
DesignOK ==
  (lo = hi /\ ~done /\ Mode = "origin") =>
    LET bj == BatchJson(Picked[lo])
        bad == {n \in {bj.ns[j] : j \in 1..Len(bj.ns)} :
                  ToLenC(n) # BlockLenOf(n) \/ BlockLenFast(n) # BlockLenOf(n)
                  \/ FromLenC(ToLenC(n)) # n \/ (n > 0 /\ ToLenC(n) <= ToLenC(n - 1))}
    IN IF bad = {} THEN TRUE ELSE PrintT(<<"UNEXPLAINED", bad>>) /\ FALSE
=============================================================================
