------------------------------ MODULE GenBank ------------------------------
(***************************************************************************)
(* C01: GenBank records written by gts read back identically.             *)
(*                                                                         *)
(* The record is abstract: a function from field names to values (the      *)
(* JSON the harness logs for the value it built and for the value the      *)
(* reader returned).  Text is not modelled character by character; the     *)
(* specification contributes                                               *)
(*   - the record stream as a FIFO queue (k-th scan = k-th write, then a   *)
(*     clean end of input),                                                *)
(*   - field-by-field fidelity (the verdict names the field),              *)
(*   - the write-read-write fixed point,                                   *)
(*   - the QUALIFIER REGISTRY state machine: the registries of insdc.go    *)
(*     are process-global and learn the type of an unknown qualifier name  *)
(*     on first sight, so what the writer emits for a name depends on what *)
(*     the reader saw earlier,                                             *)
(*   - the writable domain (what gts can write and must read back),        *)
(*   - Gregorian validity of the LOCUS date.                               *)
(***************************************************************************)
EXTENDS Integers, Sequences, FiniteSets, TLC

If(c, vs) == IF c THEN vs ELSE {}

Fields == {"locus", "molecule", "topology", "division", "date", "definition", "accession", "version", "dblink",
           "keywords", "source", "references", "comments", "extra", "contig", "region", "feats", "res", "len"}

\* fields in which the record read differs from the record written
\* the window of a slice is carried by the ACCESSION line; an EMPTY window
\* cannot be expressed there and is not a header field of the record
RegionEq(w, r) == w.region = r.region \/ (Len(w.region) = 2 /\ w.region[1] = w.region[2] /\ r.region = <<>>)
Differing(w, r) == {f \in Fields \ {"region"} : w[f] # r[f]} \cup If(~RegionEq(w, r), {"region"})

(***************************************************************************)
(* Qualifier registry                                                      *)
(***************************************************************************)
Types == {"quoted", "literal", "toggle"}
\* reg: function from names to types (names not in DOMAIN are unknown)
Known(reg, n) == n \in DOMAIN reg
TypeOf(reg, n) == IF Known(reg, n) THEN reg[n] ELSE "unknown"
Learn(reg, n, t) == IF Known(reg, n) THEN reg ELSE [x \in (DOMAIN reg) \cup {n} |-> IF x = n THEN t ELSE reg[x]]

\* the text form the writer chooses (QualifierIO.String)
WriteForm(reg, n) == IF TypeOf(reg, n) \in {"quoted", "unknown"} THEN "quoted" ELSE TypeOf(reg, n)
\* the value that survives in that form
WrittenValue(form, v) == IF form = "toggle" THEN "" ELSE v
\* the reader (QualifierParser): a known name is parsed by its type, an
\* unknown one by the first form that fits; returns <<ok, value, reg'>>
ReadBack(reg, n, form, v) ==
  IF Known(reg, n)
  THEN (IF reg[n] = form THEN <<TRUE, v, reg>> ELSE <<FALSE, "", reg>>)
  ELSE <<TRUE, v, Learn(reg, n, form)>>

\* what gts can write for a qualifier (name n, value v) under registry reg
Writable(reg, n, v) == (TypeOf(reg, n) = "toggle") => (v = "")

(***************************************************************************)
(* Dates                                                                   *)
(***************************************************************************)
Leap(y) == (y % 400 = 0) \/ (y % 4 = 0 /\ y % 100 # 0)
DaysIn(y, m) == IF m = 2 THEN (IF Leap(y) THEN 29 ELSE 28) ELSE IF m \in {4, 6, 9, 11} THEN 30 ELSE 31
ValidDate(y, m, d) == m \in 1..12 /\ d >= 1 /\ d <= DaysIn(y, m)

=============================================================================
