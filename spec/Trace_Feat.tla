----------------------------- MODULE Trace_Feat -----------------------------
(* Trace validation for C19.  State: the current feature table (set by a    *)
(* "table" event); every filter / less / insert event is judged by Feat.    *)
EXTENDS Feat, Json, IOUtils, SequencesExt

Trace == ndJsonDeserialize(IOEnv.TRACE)
N == Len(Trace)
VARIABLES l, tab, verdicts
vars == <<l, tab, verdicts>>
TInit == l = 1 /\ tab = <<>> /\ verdicts = {}

Tag(e, what, vs) == {<<l, e.case, what, v>> : v \in vs}

EvTable ==
  /\ Trace[l].ev = "table"
  /\ tab' = Trace[l].table
  /\ UNCHANGED verdicts

FltName(flt) == IF flt.f = "sel" THEN "sel:" \o flt.s ELSE flt.f

EvFilter ==
  /\ Trace[l].ev = "filter"
  /\ LET e == Trace[l] IN
     verdicts' = verdicts \cup Tag(e, FltName(e.flt),
        IF e.panic # "" THEN {"panic"}
        ELSE IF e.err # "" THEN {"selector-rejected"}
        ELSE JudgeFilter(tab, e.flt, e.out) \cup If2(~e.intact, {"filter-altered"})
             \cup If2(e.flt.f = "sel" /\ "spelt" \notin DOMAIN e.flt /\ e.flt.s # PrintSel(e.flt.sel), {"selector-print"}))
  /\ UNCHANGED tab

EvLess ==
  /\ Trace[l].ev = "less"
  /\ LET e == Trace[l] IN
     verdicts' = verdicts \cup Tag(e, PrintLoc(e.a) \o " < " \o PrintLoc(e.b),
        IF e.panic # "" THEN {"panic"} ELSE If2(e.out # Less(e.a, e.b), {"less-differs"}))
  /\ UNCHANGED tab

EvInsert ==
  /\ Trace[l].ev = "insert"
  /\ LET e == Trace[l]
         strip(xs) == [j \in 1..Len(xs) |-> [key |-> xs[j].key, loc |-> xs[j].loc, label |-> xs[j].label]]
     IN verdicts' = verdicts \cup Tag(e, ToString(l),
          IF e.panic # "" THEN {"panic"} ELSE JudgeInserted(strip(e.ins), strip(e.out))
                                              \* the tables Insert was called on still read as before
                                              \cup (IF e.stale # <<>> THEN {"insert-receiver-changed"} ELSE {}))
  /\ UNCHANGED tab

Consume == l <= N /\ (EvTable \/ EvFilter \/ EvLess \/ EvInsert) /\ l' = l + 1

Finish ==
  /\ l = N + 1
  /\ LET vseq == SetToSeq(verdicts) IN
     ndJsonSerialize(IOEnv.VERDICTS,
        <<[consumed |-> l - 1, ops |-> l - 1, nverdicts |-> Cardinality(verdicts)]>>
        \o [j \in 1..Len(vseq) |-> [line |-> vseq[j][1], case |-> vseq[j][2], op |-> vseq[j][3],
                                     rule |-> vseq[j][4], label |-> "-", calc |-> "-"]])
  /\ l' = l + 1 /\ UNCHANGED <<tab, verdicts>>

TNext == Consume \/ Finish
TSpec == TInit /\ [][TNext]_vars
TraceAccepted == TLCGet("stats").diameter = N + 2
=============================================================================
