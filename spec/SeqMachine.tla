---------------------------- MODULE SeqMachine ----------------------------
(***************************************************************************)
(* The workspace machine: one step per library call / law / probe.        *)
(* A workspace is  [recs : name -> abstract record, nextId, vs : verdicts] *)
(* and an event is a record  [ev, op, src, dst, ..., st, panic]  exactly   *)
(* as logged by the harness (Trace_Seq) or as produced by running the      *)
(* calculus layer on a generated program (MC_Seq).                         *)
(***************************************************************************)
EXTENDS SeqCalc

\* taint: records derived from a step that was rejected (laws relating them
\* to earlier records would only repeat the root cause, so they are skipped)
EmptyWS == [recs |-> << >>, nextId |-> 0, vs |-> {}, taint |-> {}]

OpSrcs(e) ==
  (IF "src" \in DOMAIN e THEN {e.src} ELSE {})
  \cup (IF "guest" \in DOMAIN e THEN {e.guest} ELSE {})
  \cup (IF "srcs" \in DOMAIN e THEN {e.srcs[j] : j \in 1..Len(e.srcs)} ELSE {})

FreshIds(ws, n) == [j \in 1..n |-> ws.nextId + j]

BindRec(recs, name, R) == [x \in (DOMAIN recs) \cup {name} |-> IF x = name THEN R ELSE recs[x]]

HasRec(ws, name) == name \in DOMAIN ws.recs

SameObs(a, b) ==
  /\ a.res = b.res /\ a.topo = b.topo /\ a.refs = b.refs /\ a.region = b.region
  /\ Len(a.feats) = Len(b.feats)
  /\ \A j \in 1..Len(a.feats) :
       /\ a.feats[j].key = b.feats[j].key /\ a.feats[j].label = b.feats[j].label
       /\ a.feats[j].loc = b.feats[j].loc /\ a.feats[j].props = b.feats[j].props

\* expected identities of the result of one library call
OpIds(recs, e) ==
  CASE e.op \in {"insert", "embed"} -> Splice(recs[e.src].ids, e.i, recs[e.guest].ids)
    [] e.op \in {"delete", "erase"} -> Cut(recs[e.src].ids, e.i, e.n)
    [] e.op = "slice"    -> Window(recs[e.src].ids, e.s, e.e)
    [] e.op = "rotate"   -> Rot(recs[e.src].ids, e.n)
    [] e.op = "reverse"  -> RevSeq(recs[e.src].ids)
    [] e.op = "concat"   -> FlatSeq([j \in 1..Len(e.srcs) |-> recs[e.srcs[j]].ids])
    [] OTHER             -> recs[e.src].ids

OpJudge(recs, e, O) ==
  CASE e.op = "insert"     -> JudgeInsert(recs[e.src], recs[e.guest], O, e.i, FALSE)
    [] e.op = "embed"      -> JudgeInsert(recs[e.src], recs[e.guest], O, e.i, TRUE)
    [] e.op = "delete"     -> JudgeDelete(recs[e.src], O, e.i, e.n, FALSE)
    [] e.op = "erase"      -> JudgeDelete(recs[e.src], O, e.i, e.n, TRUE)
    [] e.op = "slice"      -> JudgeSlice(recs[e.src], O, e.s, e.e)
    [] e.op = "rotate"     -> JudgeRotate(recs[e.src], O, e.n)
    [] e.op = "reverse"    -> JudgeReverse(recs[e.src], O)
    [] e.op = "complement" -> JudgeComplement(recs[e.src], O)
    [] e.op = "transcribe" -> JudgeTranscribe(recs[e.src], O)
    [] e.op = "concat"     -> JudgeConcat([j \in 1..Len(e.srcs) |-> recs[e.srcs[j]]], O)
    [] e.op = "repair"     -> JudgeRepair(recs[e.src], O)
    [] e.op \in {"filter", "finsert"} -> {}   \* judged by Feat.tla
    [] OTHER               -> If(~SameObs(O.raw, recs[e.src].raw), V("identity", "-"))

\* what the calculus layer predicts for a library call on the RAW records
CalcOp(recs, e) ==
  CASE e.op = "insert"     -> InsertC(recs[e.src].raw, e.i, recs[e.guest].raw)
    [] e.op = "embed"      -> EmbedC(recs[e.src].raw, e.i, recs[e.guest].raw)
    [] e.op = "delete"     -> DeleteC(recs[e.src].raw, e.i, e.n)
    [] e.op = "erase"      -> EraseC(recs[e.src].raw, e.i, e.n)
    [] e.op = "slice"      -> SliceC(recs[e.src].raw, e.s, e.e)
    [] e.op = "rotate"     -> RotateC(recs[e.src].raw, e.n)
    [] e.op = "reverse"    -> ReverseC(recs[e.src].raw)
    [] e.op = "complement" -> ComplementC(recs[e.src].raw)
    [] e.op = "transcribe" -> TranscribeC(recs[e.src].raw)
    [] e.op = "concat"     -> ConcatC([j \in 1..Len(e.srcs) |-> recs[e.srcs[j]].raw])
    [] e.op = "repair"     -> RepairC(recs[e.src].raw)
    [] OTHER               -> recs[e.src].raw   \* copies; filter / finsert are judged by Feat.tla

\* Which known deviation explains the verdict v of this step?  D explains v
\* iff the calculus layer with D present predicts exactly the observed
\* result, and with D repaired (and nothing else changed) the abstract layer
\* no longer raises v.  Anything else on the same input is NOT explained.
NoRgPt     == INSTANCE SeqCalc WITH Devs <- Devs \ {"RgPt"}
NoBwRev    == INSTANCE SeqCalc WITH Devs <- Devs \ {"BwRev"}
NoBwOrigin == INSTANCE SeqCalc WITH Devs <- Devs \ {"BwOrigin"}

RepairedOp(recs, e, D) ==
  CASE D = "RgPt" ->
       (CASE e.op = "insert" -> NoRgPt!InsertC(recs[e.src].raw, e.i, recs[e.guest].raw)
          [] e.op = "embed"  -> NoRgPt!EmbedC(recs[e.src].raw, e.i, recs[e.guest].raw)
          [] e.op = "delete" -> NoRgPt!DeleteC(recs[e.src].raw, e.i, e.n)
          [] e.op = "erase"  -> NoRgPt!EraseC(recs[e.src].raw, e.i, e.n)
          [] e.op = "slice"  -> NoRgPt!SliceC(recs[e.src].raw, e.s, e.e)
          [] e.op = "rotate" -> NoRgPt!RotateC(recs[e.src].raw, e.n)
          [] e.op = "reverse" -> NoRgPt!ReverseC(recs[e.src].raw)
          [] e.op = "concat" -> NoRgPt!ConcatC([j \in 1..Len(e.srcs) |-> recs[e.srcs[j]].raw])
          [] OTHER -> CalcOp(recs, e))
    [] D = "BwRev" ->
       (CASE e.op = "reverse" -> NoBwRev!ReverseC(recs[e.src].raw) [] OTHER -> CalcOp(recs, e))
    [] D = "BwOrigin" ->
       (CASE e.op = "rotate" -> NoBwOrigin!RotateC(recs[e.src].raw, e.n)
          [] e.op = "slice"  -> NoBwOrigin!SliceC(recs[e.src].raw, e.s, e.e)
          [] e.op = "insert" -> NoBwOrigin!InsertC(recs[e.src].raw, e.i, recs[e.guest].raw)
          [] e.op = "embed"  -> NoBwOrigin!EmbedC(recs[e.src].raw, e.i, recs[e.guest].raw)
          [] e.op = "concat" -> NoBwOrigin!ConcatC([j \in 1..Len(e.srcs) |-> recs[e.srcs[j]].raw])
          [] OTHER -> CalcOp(recs, e))
    [] OTHER -> CalcOp(recs, e)

\* set of deviations that explain verdict v raised for the observed e.st
Explains(ws, e, v) ==
  IF e.panic # "" \/ ~SameObs(CalcOp(ws.recs, e), e.st) THEN {}
  ELSE {D \in Devs \ {"WrapSlice"} :
          LET st2 == RepairedOp(ws.recs, e, D)
              want == OpIds(ws.recs, e)
          IN /\ Len(st2.res) = Len(want)
             /\ v \notin OpJudge(ws.recs, e, Proj(st2, want))}
       \cup
       \* the Repair deviations are recognised by their input predicate on the
       \* class group the verdict is about (labels name the class: key for
       \* repair-cover, feature label otherwise)
       {D \in Devs \cap {"RepairCp", "RepairJn"} :
          /\ e.op = "repair"
          /\ LET S == ws.recs[e.src].raw
                 labs == IF v[1] = "repair-cover" THEN {S.feats[j].label : j \in {q \in 1..Len(S.feats) : S.feats[q].key = v[2]}}
                         ELSE IF v[2] = "-" THEN {S.feats[j].label : j \in 1..Len(S.feats)}
                         ELSE {v[2]}
             IN \E lab \in labs : IF D = "RepairCp" THEN RepairCpGroup(S, lab) ELSE RepairJnGroup(S, lab)}
       \cup
       \* "WrapSlice" has no repaired transcription; it is recognised by its
       \* input predicate, on the feature the verdict is about, markers only
       {D \in Devs \cap {"WrapSlice"} :
          /\ e.op = "slice" /\ v[1] \in {"flag5", "flag3"}
          /\ LET S == ws.recs[e.src]
                 L == Len(S.ids)
                 a1 == NormIdx(e.s, L)
                 b1 == NormIdx(e.e, L)
                 fs == FeatsWith(S, v[2])
             IN b1 < a1 /\ fs # <<>> /\ WrapSplitPart(fs[1].loc, a1, b1)}

StepInit(ws, name, st, withext) ==
  LET R == Proj(st, FreshIds(ws, Len(st.res)))
  IN [recs |-> BindRec(ws.recs, name, R), nextId |-> ws.nextId + Len(st.res),
      vs |-> IF withext THEN ExtractRule(R) ELSE {}, taint |-> ws.taint \ {name}]

\* one library call: e carries the (observed or calculated) result e.st
StepOp(ws, e, withext) ==
  IF e.panic # "" THEN [recs |-> ws.recs, nextId |-> ws.nextId, vs |-> V("panic", "-"), taint |-> ws.taint]
  ELSE LET want == OpIds(ws.recs, e)
           same == Len(want) = Len(e.st.res)
           ids2 == IF same THEN want ELSE FreshIds(ws, Len(e.st.res))
           O == Proj(e.st, ids2)
           vs2 == OpJudge(ws.recs, e, O) \cup (IF withext THEN ExtractRule(O) ELSE {})
       IN [recs |-> BindRec(ws.recs, e.dst, O),
           nextId |-> IF same THEN ws.nextId ELSE ws.nextId + Len(e.st.res),
           vs |-> vs2,
           taint |-> IF vs2 # {} \/ OpSrcs(e) \cap ws.taint # {} THEN ws.taint \cup {e.dst} ELSE ws.taint \ {e.dst}]

\* a restoration law (cut ; concat ; repair) can fail although every step was
\* accepted; for the law "sametable" the repair input is named by e.via
ExplainsLaw(ws, e, v) ==
  IF e.name \notin {"sametable", "sameraw"} \/ "via" \notin DOMAIN e \/ ~HasRec(ws, e.via) \/ ~HasRec(ws, e.b) THEN {}
  ELSE LET S == ws.recs[e.via].raw IN
       IF ~SameObs(IF e.name = "sametable" THEN RepairC(S) ELSE RepairC(RepairC(S)), ws.recs[e.b].raw) THEN {}
       ELSE {D \in Devs \cap {"RepairCp", "RepairJn"} :
               LET labs == IF v[2] = "-" THEN {S.feats[j].label : j \in 1..Len(S.feats)} ELSE {v[2]}
               IN \E lab \in labs : IF D = "RepairCp" THEN RepairCpGroup(S, lab) ELSE RepairJnGroup(S, lab)}

StepLaw(ws, e) ==
  IF ~HasRec(ws, e.a) \/ ~HasRec(ws, e.b) \/ e.a \in ws.taint \/ e.b \in ws.taint THEN {}
  ELSE CASE e.name = "restored"    -> LawRestored(ws.recs[e.a], ws.recs[e.b])
         [] e.name = "samemeaning" -> LawSameMeaning(ws.recs[e.a], ws.recs[e.b])
         [] e.name = "pieces"      -> LawPieces(ws.recs[e.a], ws.recs[e.b])
         [] e.name = "sameextract" -> LawSameExtract(ws.recs[e.a], ws.recs[e.b])
         [] e.name = "sametable"   -> IF HasRec(ws, e.via) THEN LawSameTable(ws.recs[e.a], ws.recs[e.b], ws.recs[e.via]) ELSE {}
         [] e.name = "sameraw"     -> If(~SameObs(ws.recs[e.a].raw, ws.recs[e.b].raw), V("law-raw", "-"))
         [] OTHER -> V("unknown-law", e.name)

=============================================================================
