---------------------------- MODULE MC_LocText ----------------------------
(***************************************************************************)
(* Bounded design check and generator for C06.                             *)
(*  Mode "terms":   batches of raw terms (depth <= 3, 1..5 parts, abutting, *)
(*                  duplicate, single-base, between, nested, complemented)  *)
(*                  DesignOK: the transcribed reduction preserves           *)
(*                  Dedup(Den) and outer markers (except named deviations)  *)
(*                  and is idempotent.                                      *)
(*  Mode "strings": every token string of length 1..MaxTok over the         *)
(*                  location alphabet (the parser decides which are valid). *)
(***************************************************************************)
EXTENDS LocText, Json, IOUtils, SequencesExt, CSV

CONSTANTS Mode, L, Batch, Stride, Offset, MaxTok

A0 == Atoms(L)
A1 == Points(L) \cup Betweens(L) \cup PlainRanges(L)
       \cup {r \in Ranges(L) : r.e - r.s <= 2 /\ (r.p5 \/ r.p3)}
A2 == {Pt(0), Pt(1), Pt(L - 1), Bw(0), Bw(1), Bw(2), Rg(0, 1, FALSE, FALSE), Rg(0, 2, FALSE, FALSE),
       Rg(1, 2, FALSE, FALSE), Rg(1, 3, FALSE, FALSE), Rg(2, L, FALSE, FALSE), Rg(2, 3, TRUE, FALSE),
       Rg(0, 2, FALSE, TRUE), Am(0, 2)}
A3 == {Pt(0), Pt(1), Pt(2), Bw(1), Bw(2), Rg(0, 1, FALSE, FALSE), Rg(1, 2, FALSE, FALSE), Rg(2, 3, FALSE, FALSE)}

Lists == SeqsOf(A1, 1) \cup SeqsOf(A1, 2) \cup SeqsOf(A2, 3) \cup SeqsOf(A3, 4)
         \cup {<<Pt(a), Pt(a), Rg(a, a + 2, FALSE, FALSE), Bw(a + 2), Pt(a + 2)>> : a \in 0..(L - 3)}
         \cup {<<Rg(0, 1, TRUE, FALSE), Rg(1, 2, FALSE, FALSE), Pt(2), Bw(3), Rg(3, L, FALSE, TRUE)>>}

Flat == A0 \cup {Jn(p) : p \in Lists} \cup {Od(p) : p \in SeqsOf(A1, 1) \cup SeqsOf(A1, 2) \cup SeqsOf(A3, 3)}
A4 == {Pt(0), Bw(2), Rg(1, 2, FALSE, FALSE), Rg(2, 3, FALSE, FALSE)}
Pairs2 == SeqsOf(A3, 2)
Pairs4 == SeqsOf(A4, 2)
Nested ==
  {Jn(<<Jn(p), a>>) : p \in Pairs2, a \in A3}
  \cup {Jn(<<a, Jn(p)>>) : p \in Pairs2, a \in A3}
  \cup {Od(<<Od(p), a>>) : p \in Pairs2, a \in A3}
  \cup {Od(<<Jn(p), a>>) : p \in Pairs2, a \in A3}
  \* a compound whose only part is itself a compound
  \cup {Od(<<Od(p)>>) : p \in Pairs2} \cup {Jn(<<Jn(p)>>) : p \in Pairs2} \cup {Od(<<Jn(p)>>) : p \in Pairs4} \cup {Jn(<<Od(p)>>) : p \in Pairs4}
  \cup {Cp(Od(<<Od(p)>>)) : p \in Pairs4} \cup {Jn(<<a, Od(<<Od(p)>>)>>) : p \in Pairs4, a \in A4}
  \cup {Jn(<<Cp(a), Cp(b)>>) : a \in A2, b \in A2}
  \cup {Jn(<<Cp(Jn(p)), Cp(a)>>) : p \in Pairs2, a \in A3}
  \cup {Jn(<<Cp(a), Cp(Jn(p))>>) : p \in Pairs2, a \in A3}
  \cup {Od(<<Cp(a), Cp(Jn(p))>>) : p \in Pairs2, a \in A4}
  \cup {Jn(<<Cp(a), Cp(Od(p))>>) : p \in Pairs4, a \in A3}
  \cup {Jn(<<Cp(Jn(p)), Cp(Jn(q))>>) : p \in Pairs4, q \in Pairs4}
  \cup {Jn(<<a, Cp(b), Cp(Jn(p))>>) : p \in Pairs4, a \in A4, b \in A4}
  \cup {Jn(<<Cp(Jn(p)), b, Cp(a)>>) : p \in Pairs4, a \in A4, b \in A4}
  \cup {Cp(Jn(<<Cp(a), b>>)) : a \in A3, b \in A3}
  \cup {Jn(<<Cp(a), Cp(b), Cp(c)>>) : a \in A3, b \in A3, c \in A3}
TU == Flat \cup {Cp(t) : t \in Flat} \cup Nested \cup {Cp(t) : t \in Nested}
TermSeq == SetToSeq(TU)

Tokens == <<"1", "2", "12", "..", ".", "^", "<", ">", ",", "(", ")", "join(", "order(", "complement(", ", ">>
NTok == Len(Tokens)
RECURSIVE TokStr(_, _)
\* the n-digit base-NTok numeral c as a token string
TokStr(c, n) == IF n = 0 THEN "" ELSE TokStr(c \div NTok, n - 1) \o Tokens[(c % NTok) + 1]
RECURSIVE Pw(_)
Pw(n) == IF n = 0 THEN 1 ELSE NTok * Pw(n - 1)
\* strings are numbered: all of length 1, then 2, ...; batches of Batch
NStrings == LET RECURSIVE S(_)
                S(n) == IF n = 0 THEN 0 ELSE Pw(n) + S(n - 1)
            IN S(MaxTok)
StrAt(k) ==  \* k in 0..NStrings-1
  LET RECURSIVE F(_, _)
      F(x, n) == IF x < Pw(n) THEN TokStr(x, n) ELSE F(x - Pw(n), n + 1)
  IN F(k, 1)

\* longer strings than the token enumeration reaches (also used by C07): whatever the parser accepts must
\* print to a fixed point of parse-then-print
ProbeStrs == SetToSeq({"join(7..3,4..1)", "join(2..1,2..1)", "join(5..4,5..2)", "order(1..2,join(<9..8,9..>3))", "3..1", "0..0", "1..0",
   "join(complement(join(1..2,3..4)),5)", "join(1,1,1,1,1,1,1,1,1,1)", "complement(complement(complement(1)))", "order(join(order(1,2),3),4)",
   "join(3..1,1..3)", "join(1..3,3..1)", "join(<1..>1,<1..>1)", "complement(join(9..7,7..5))", "join(1^2,2..1)", "join(4..6,7..5)", "order(2..1)",
   "join(join(6,5^6),6)", "join(complement(6),complement(join(6,5^6)))", "order(order(1..2,4..5),7..8)", "order(order(1..3,7..9))", "join(join(1..3,7..9))", "join(1..2,order(order(5,9)))", "order(order(1,3),4^5,7..9)",
   "join(complement(7..9),complement(join(1..2,4..6)))", "join(1..>3,<7..9)", "join(12..34,56..78)", "complement(join(100..200,300..>400))",
   "join(1..2,3..4,5..6,7..8,9..10,11..12,13..14,15..16,17..18,19..20,21..22,23..24)", "1.5", "join(1.5,7.9)", "order(<1..2,3^4,5,6..>7)"})
NItems == IF Mode = "terms" THEN Len(TermSeq) ELSE NStrings
NBatches == (NItems + Batch - 1) \div Batch
PickedB == SelectSeq([j \in 1..NBatches |-> j], LAMBDA j : (j + (j \div Stride) + (j \div (Stride * Stride))) % Stride = Offset % Stride)

BatchJson(b) ==
  LET lo == (b - 1) * Batch
      n == IMin(Batch, NItems - lo)
  IN IF Mode = "terms"
     THEN [id |-> "t" \o ToString(b), terms |-> [j \in 1..n |-> TermSeq[lo + j]], strings |-> <<>>]
     ELSE [id |-> "s" \o ToString(b), terms |-> <<>>,
           \* the probes ride on the first batch of whatever sample is taken
           strings |-> [j \in 1..n |-> StrAt(lo + j - 1)] \o (IF b = PickedB[1] THEN ProbeStrs ELSE <<>>)]

\* design check of one raw term on the calculus layer
TermVerdicts(t) ==
  LET b == Built(t)
      vs == JudgeTerm(t, b, PrintLoc(b), TRUE, b, PrintLoc(b), Built(b))
  IN {v \in vs : ExplainsTerm(t, b, v) = {}}

VARIABLES lo, hi, done
vars == <<lo, hi, done>>
Init == lo = 1 /\ hi = Len(PickedB) /\ done = FALSE
Split ==
  /\ lo < hi
  /\ LET mid == (lo + hi) \div 2 IN \/ (lo' = lo /\ hi' = mid) \/ (lo' = mid + 1 /\ hi' = hi)
  /\ done' = FALSE
Emit ==
  /\ lo = hi /\ ~done
  /\ IF "CASES" \in DOMAIN IOEnv THEN CSVWrite("%1$s", <<ToJson(BatchJson(PickedB[lo]))>>, IOEnv.CASES) ELSE TRUE
  /\ done' = TRUE /\ UNCHANGED <<lo, hi>>
Next == Split \/ Emit
Spec == Init /\ [][Next]_vars

DesignOK ==
  (lo = hi /\ ~done /\ Mode = "terms") =>
    LET bj == BatchJson(PickedB[lo])
        bad == {<<PrintLoc(bj.terms[j]), v>> : j \in 1..Len(bj.terms), v \in {"x"}} \cap {}
        res == UNION {{<<PrintLoc(bj.terms[j]), PrintLoc(Built(bj.terms[j])), v>> : v \in TermVerdicts(bj.terms[j])} : j \in 1..Len(bj.terms)}
    IN IF res = {} THEN TRUE ELSE PrintT(<<"UNEXPLAINED", bj.id, res>>) /\ FALSE
=============================================================================
