-------------------------------- MODULE Feat --------------------------------
(***************************************************************************)
(* C19: feature selection, filter combinators, sorted insertion and the   *)
(* location order (feature.go, location.go LocationLess, props.go).        *)
(*                                                                         *)
(* Qualifier values and regular expressions are modelled over character   *)
(* sequences (TLA+ strings cannot be searched): a value is a sequence of   *)
(* one-character strings; a regexp is one of                               *)
(*   [k |-> "lit", s]   s anywhere        [k |-> "pre", s]   ^s            *)
(*   [k |-> "suf", s]   s$                [k |-> "exact", s] ^s$           *)
(*   [k |-> "dot"]      .  (any non-empty value)     [k |-> "empty"]  ""   *)
(* which is the subset with a TLA+-definable meaning; full RE2 is Go's.    *)
(***************************************************************************)
EXTENDS SeqCalc

Cat(cs) == IF cs = <<>> THEN "" ELSE JoinStr(cs, "")

IsPrefix(p, v) == Len(p) <= Len(v) /\ SubSeq(v, 1, Len(p)) = p
IsSuffix(p, v) == Len(p) <= Len(v) /\ SubSeq(v, Len(v) - Len(p) + 1, Len(v)) = p
IsInfix(p, v)  == \E i \in 0..(Len(v) - Len(p)) : SubSeq(v, i + 1, i + Len(p)) = p

ReMatch(re, v) ==
  CASE re.k = "lit"   -> IsInfix(re.s, v)
    [] re.k = "pre"   -> IsPrefix(re.s, v)
    [] re.k = "suf"   -> IsSuffix(re.s, v)
    [] re.k = "exact" -> re.s = v
    [] re.k = "dot"   -> Len(v) >= 1
    [] re.k = "empty" -> TRUE
PrintRe(re) ==
  CASE re.k = "lit"   -> Cat(re.s)
    [] re.k = "pre"   -> "^" \o Cat(re.s)
    [] re.k = "suf"   -> Cat(re.s) \o "$"
    [] re.k = "exact" -> "^" \o Cat(re.s) \o "$"
    [] re.k = "dot"   -> "."
    [] re.k = "empty" -> ""

\* a feature carries cv: sequence of <<name, values>> with values as char sequences
ValuesOf(f, name) == FlatSeq([j \in 1..Len(f.cv) |-> IF f.cv[j][1] = name THEN f.cv[j][2] ELSE <<>>])
AllValues(f) == FlatSeq([j \in 1..Len(f.cv) |-> f.cv[j][2]])
HasQual(f, name) == \E j \in 1..Len(f.cv) : f.cv[j][1] = name

\* clause: [name, re]; name = "" is "any qualifier"; a clause printed without
\* "=" (bare) tests presence of the qualifier
ClauseOK(c, f) ==
  IF c.name = "" THEN \E j \in 1..Len(AllValues(f)) : ReMatch(c.re, AllValues(f)[j])
  ELSE IF c.re.k = "empty" THEN HasQual(f, c.name)
  ELSE \E j \in 1..Len(ValuesOf(f, c.name)) : ReMatch(c.re, ValuesOf(f, c.name)[j])

\* selector: [key, clauses]
Accepts(sel, f) == (sel.key = "" \/ f.key = sel.key) /\ \A j \in 1..Len(sel.clauses) : ClauseOK(sel.clauses[j], f)

PrintClause(c) == "/" \o c.name \o (IF c.bare THEN "" ELSE "=" \o PrintRe(c.re))
PrintSel(sel) == sel.key \o Cat([j \in 1..Len(sel.clauses) |-> PrintClause(sel.clauses[j])])

\* filter combinators as boolean algebra over the denoted residues
DenOfF(f) == Den(f.loc)
RECURSIVE Eval(_, _)
Eval(flt, f) ==
  CASE flt.f = "true"    -> TRUE
    [] flt.f = "false"   -> FALSE
    [] flt.f = "and"     -> \A j \in 1..Len(flt.xs) : Eval(flt.xs[j], f)
    [] flt.f = "or"      -> \E j \in 1..Len(flt.xs) : Eval(flt.xs[j], f)
    [] flt.f = "not"     -> ~Eval(flt.x, f)
    [] flt.f = "key"     -> flt.key = "" \/ f.key = flt.key
    [] flt.f = "sel"     -> Accepts(flt.sel, f)
    [] flt.f = "within"  -> \A j \in 1..Len(DenOfF(f)) : flt.l <= DenOfF(f)[j][1] /\ DenOfF(f)[j][1] < flt.u
    [] flt.f = "overlap" -> \E j \in 1..Len(DenOfF(f)) : flt.l <= DenOfF(f)[j][1] /\ DenOfF(f)[j][1] < flt.u
    [] flt.f = "fwd"     -> \A j \in 1..Len(DenOfF(f)) : DenOfF(f)[j][2] = 1
    [] flt.f = "rev"     -> \A j \in 1..Len(DenOfF(f)) : DenOfF(f)[j][2] = -1

\* filters that look at the location are only judged on features with residues
RECURSIVE UsesLoc(_)
UsesLoc(flt) ==
  CASE flt.f \in {"within", "overlap", "fwd", "rev"} -> TRUE
    [] flt.f \in {"and", "or"} -> \E j \in 1..Len(flt.xs) : UsesLoc(flt.xs[j])
    [] flt.f = "not" -> UsesLoc(flt.x)
    [] OTHER -> FALSE

If2(c, vs) == IF c THEN vs ELSE {}

\* out: the labels returned by FeatureSlice.Filter, in order; tab: the table
JudgeFilter(tab, flt, out) ==
  LET judged == SelectSeq(tab, LAMBDA f : ~(UsesLoc(flt) /\ Den(f.loc) = <<>>))
      want == [j \in 1..Len(SelectSeq(judged, LAMBDA f : Eval(flt, f))) |-> SelectSeq(judged, LAMBDA f : Eval(flt, f))[j].label]
      got == SelectSeq(out, LAMBDA lab : \E j \in 1..Len(judged) : judged[j].label = lab)
  IN If2(got # want, {"filter-result"})

\* sorted insertion: same features plus the new one, sources first, no
\* adjacent inversion under the location order
JudgeInserted(ins, out) ==
  LET bag(xs, x) == Cardinality({j \in 1..Len(xs) : xs[j] = x})
      items == {ins[j] : j \in 1..Len(ins)} \cup {out[j] : j \in 1..Len(out)}
      src(j) == out[j].key = "source"
  IN If2(\E x \in items : bag(ins, x) # bag(out, x), {"insert-multiset"})
     \cup If2(\E j \in 1..(Len(out) - 1) : ~src(j) /\ src(j + 1), {"insert-sources-first"})
     \cup If2(\E j \in 1..(Len(out) - 1) : ~src(j) /\ ~src(j + 1) /\ Less(out[j + 1].loc, out[j].loc), {"insert-order"})

=============================================================================
