------------------------------- MODULE Seq -------------------------------
(***************************************************************************)
(* The core state machine of gts: a WORKSPACE of annotated sequence       *)
(* records; every library edit is an action that creates a new record     *)
(* from existing ones (the library is functional: arguments must stay     *)
(* unchanged - property C11 - and results are new values).                *)
(*                                                                         *)
(* Abstract (denotational) state of a record:                              *)
(*   ids   residue identities in position order (distinct integers)        *)
(*   byt   the byte at each position                                       *)
(*   topo  "linear" | "circular" | "na"                                    *)
(*   feats features in table order, each with                              *)
(*           parts  non-empty parts in feature direction, each a list of   *)
(*                  <<residue identity, strand>>                           *)
(*           f5,f3  outer partial markers in feature direction             *)
(*           loc    the raw location term (to re-derive sites)             *)
(* Residue identities make the listed properties one-liners: "a feature    *)
(* denotes the same residues after Insert / Rotate" is `den unchanged`,    *)
(* "Delete removes exactly [i,i+n)" is `den filtered by the survivors`.    *)
(*                                                                         *)
(* This module defines, for every action, the expected residues and the   *)
(* judgement of an observed result (a set of violated rule names; empty   *)
(* = conforms).  It is used three ways:                                    *)
(*   MC_Seq     implementation := the calculus layer (SeqCalc)             *)
(*   Trace_Seq  implementation := events recorded from the real code       *)
(*   Gen_Seq    behaviours to replay                                       *)
(***************************************************************************)
EXTENDS LocCalc

(***************************************************************************)
(* Projection of a raw observed state to the abstract one                 *)
(***************************************************************************)
MapDen(d, ids) == [j \in 1..Len(d) |-> <<ids[d[j][1] + 1], d[j][2]>>]

\* adjacency denoted by gap g in a sequence with identities ids
\* (0 = beyond the end of a linear sequence)
Adj(g, ids, wrap) ==
  LET L == Len(ids)
  IN << IF g >= 1 /\ g <= L THEN ids[g] ELSE IF wrap /\ L > 0 /\ g = 0 THEN ids[L] ELSE 0,
        IF g >= 0 /\ g < L THEN ids[g + 1] ELSE IF wrap /\ L > 0 /\ g = L THEN ids[1] ELSE 0 >>

ProjFeat(fj, ids) ==
  LET ok == WF(fj.loc, Len(ids))
      ps == IF ok THEN Parts(fj.loc) ELSE <<>>
  IN [ label |-> fj.label, key |-> fj.key, props |-> fj.props, loc |-> fj.loc, wf |-> ok,
       parts |-> [j \in 1..Len(ps) |-> MapDen(ps[j].den, ids)],
       amb   |-> [j \in 1..Len(ps) |-> ps[j].amb],
       f5    |-> IF ok THEN F5(fj.loc) ELSE FALSE,
       f3    |-> IF ok THEN F3(fj.loc) ELSE FALSE,
       gaps  |-> IF ok THEN Sites(fj.loc) ELSE {} ]

FDen(f) == FlatSeq(f.parts)
HasAmb(f) == \E j \in 1..Len(f.amb) : f.amb[j]
FSet(f) == SeqToSet(FDen(f))
FIds(f) == {x[1] : x \in FSet(f)}

Proj(st, ids) ==
  [ ids |-> ids, byt |-> st.res, topo |-> st.topo,
    feats |-> [j \in 1..Len(st.feats) |-> ProjFeat(st.feats[j], ids)],
    raw |-> st ]

FeatsWith(R, lab) == SelectSeq(R.feats, LAMBDA f : f.label = lab)
Labels(R) == {R.feats[j].label : j \in 1..Len(R.feats)}

(***************************************************************************)
(* Alphabet (IUPAC): complement / transcribe tables DERIVED from base sets *)
(* (ASCII codes; see Alphabet.tla for the derivation being checked)        *)
(***************************************************************************)
CompPairs ==
  << <<65,84>>, <<67,71>>, <<71,67>>, <<84,65>>, <<85,65>>, <<82,89>>, <<89,82>>, <<75,77>>,
     <<77,75>>, <<66,86>>, <<68,72>>, <<72,68>>, <<86,66>> >>
CompOf(c) ==
  LET up == IF c >= 97 /\ c <= 122 THEN c - 32 ELSE c
      hit == {j \in 1..Len(CompPairs) : CompPairs[j][1] = up}
  IN IF hit = {} THEN c
     ELSE LET r == CompPairs[CHOOSE j \in hit : TRUE][2]
          IN IF c >= 97 /\ c <= 122 THEN r + 32 ELSE r
TransOf(c) == IF c = 65 THEN 85 ELSE IF c = 97 THEN 117 ELSE CompOf(c)

(***************************************************************************)
(* Expected residues of every action                                       *)
(***************************************************************************)
Splice(s, i, g) == SubSeq(s, 1, i) \o g \o SubSeq(s, i + 1, Len(s))
Cut(s, i, n)    == SubSeq(s, 1, i) \o SubSeq(s, i + n + 1, Len(s))
\* Slice window with Go's conventions (negative indices, wrap when e < s)
NormIdx(x, L)   == IF x < 0 THEN x + L ELSE x
Window(s, a, b) ==
  LET L == Len(s)  a1 == NormIdx(a, L)  b1 == NormIdx(b, L)
  IN IF b1 < a1 THEN SubSeq(s, a1 + 1, L) \o SubSeq(s, 1, b1) ELSE SubSeq(s, a1 + 1, b1)
\* Rotate by n: residue k moves to (k+n) mod L
Rot(s, n) ==
  LET L == Len(s) IN
  IF L = 0 THEN s ELSE
  LET m == ((n % L) + L) % L
  IN [j \in 1..L |-> s[((j - 1 - m + L) % L) + 1]]

(***************************************************************************)
(* Judgement helpers.  A verdict is <<rule, label>>.                       *)
(***************************************************************************)
V(rule, lab) == {<<rule, lab>>}
If(c, vs) == IF c THEN vs ELSE {}

SameMeta(f, o) == If(f.key # o.key, V("key", f.label)) \cup If(f.props # o.props, V("props", f.label))

\* every label in labs occurs exactly once in O
Once(O, labs) == UNION {If(Len(FeatsWith(O, lab)) # 1, V("once", lab)) : lab \in labs}

The(O, lab) == FeatsWith(O, lab)[1]

AllWF(O) == UNION {If(~O.feats[j].wf, V("wf", O.feats[j].label)) : j \in 1..Len(O.feats)}
AllWFx(O, skip) == {v \in AllWF(O) : v[2] \notin skip}
\* features that were already ill-formed before the step (garbage in)
Ill(S) == {S.feats[j].label : j \in {q \in 1..Len(S.feats) : ~S.feats[q].wf}}

\* table order: source features first, then no adjacent inversion under Less
OrderOK(O) ==
  LET n == Len(O.feats)
      src(j) == O.feats[j].key = "source"
  IN UNION {If( (~src(j) /\ src(j + 1))
               \/ (~src(j) /\ ~src(j + 1) /\ ~HasNil(O.feats[j].loc) /\ ~HasNil(O.feats[j + 1].loc)
                   /\ Less(O.feats[j + 1].loc, O.feats[j].loc)),
               V("order", O.feats[j + 1].label)) : j \in 1..(n - 1)}

\* surviving-neighbour rule for a zero-length site.  pre: adjacency before,
\* post gaps after; surv: surviving identities; cut: gap of the cut (or -1)
SiteRule(f, o, preIds, postIds, surv, cut, wrap) ==
  LET preAdj  == {Adj(g, preIds, wrap) : g \in f.gaps}
      postAll == {Adj(g, postIds, wrap) : g \in 0..Len(postIds)}
      postAdj == {Adj(g, postIds, wrap) : g \in o.gaps}
      survX == surv \cup {0}     \* the ends of a linear sequence always "survive"
      okFor(a) ==
        IF a[1] \in survX /\ a[2] \in survX /\ a \notin postAll
        THEN \* something was inserted between the two neighbours: either side
             \E b \in postAdj : b[1] = a[1] \/ b[2] = a[2]
        ELSE IF a[1] \in surv \/ a[2] \in surv
        THEN \E b \in postAdj : (a[1] \in surv => b[1] = a[1]) /\ (a[2] \in surv => b[2] = a[2])
        ELSE IF a[1] = 0 /\ a[2] = 0 THEN TRUE
        ELSE cut < 0 \/ cut \in o.gaps \/ (a[1] = 0 \/ a[2] = 0)
  IN If(FDen(o) # <<>> \/ o.gaps = {} \/ \E a \in preAdj : ~okFor(a), V("site", f.label))

\* outer partial-marker rule after residues were removed (weakest reading,
\* DESIGN 3): an outer end whose terminal residue survives keeps its marker;
\* an outer end whose part lost that residue but still has residues must be
\* partial; when the whole first/last part vanished either marking is accepted.
FlagRule(f, o, surv) ==
  LET P1 == f.parts[1]
      Pk == f.parts[Len(f.parts)]
      first5 == P1[1][1]
      last3  == Pk[Len(Pk)][1]
      p1surv == \E j \in 1..Len(P1) : P1[j][1] \in surv
      pksurv == \E j \in 1..Len(Pk) : Pk[j][1] \in surv
  IN \* an ambiguous span cannot carry a marker
     If((first5 \in surv /\ o.f5 # f.f5) \/ (first5 \notin surv /\ p1surv /\ ~o.f5 /\ ~f.amb[1]), V("flag5", f.label))
     \cup
     If((last3 \in surv /\ o.f3 # f.f3) \/ (last3 \notin surv /\ pksurv /\ ~o.f3 /\ ~f.amb[Len(f.parts)]), V("flag3", f.label))

FilterDen(d, surv) == SelectSeq(d, LAMBDA x : x[1] \in surv)

ResRule(O, ids, byt) == If(O.byt # byt, V("res", "-"))

(***************************************************************************)
(* Insert / Embed                                                          *)
(***************************************************************************)
\* guest identities spliced into a denotation where it strictly spans the
\* insertion point: between <<a,+>>,<<b,+>> or <<b,->>,<<a,->>
EmbedDenOK(f, o, a, b, gids) ==
  LET gset == SeqToSet(gids)
      od == FDen(o)
      stripped == SelectSeq(od, LAMBDA x : x[1] \notin gset)
      \* every maximal guest run in od is the whole guest, oriented, and sits
      \* between a and b
      n == Len(gids)
      runOK(j) == \* od[j] is the first guest entry of a run
        /\ j + n - 1 <= Len(od)
        /\ j > 1 /\ j + n <= Len(od)
        /\ LET sg == od[j][2] IN
           /\ \A q \in 0..(n - 1) : od[j + q] = <<(IF sg = 1 THEN gids[q + 1] ELSE gids[n - q]), sg>>
           /\ IF sg = 1 THEN od[j - 1] = <<a, 1>> /\ od[j + n] = <<b, 1>>
                        ELSE od[j - 1] = <<b, -1>> /\ od[j + n] = <<a, -1>>
      starts == {j \in 1..Len(od) : od[j][1] \in gset /\ (j = 1 \/ od[j - 1][1] \notin gset)}
      \* a straddle inside ONE part must be extended over the guest
      mustSpan == \E p \in 1..Len(f.parts) : \E j \in 1..(Len(f.parts[p]) - 1) :
                    \/ (f.parts[p][j] = <<a, 1>> /\ f.parts[p][j + 1] = <<b, 1>>)
                    \/ (f.parts[p][j] = <<b, -1>> /\ f.parts[p][j + 1] = <<a, -1>>)
  IN /\ stripped = FDen(f)
     /\ \A j \in starts : runOK(j)
     /\ (n > 0 /\ mustSpan) => starts # {}

JudgeInsert(H, G, O, i, embed) ==
  LET ids2 == Splice(H.ids, i, G.ids)
      byt2 == Splice(H.byt, i, G.byt)
      a == IF i >= 1 THEN H.ids[i] ELSE 0
      b == IF i < Len(H.ids) THEN H.ids[i + 1] ELSE 0
      hostRule(f) ==
        LET o == The(O, f.label) IN
        SameMeta(f, o)
        \cup (IF FDen(f) = <<>>
              THEN SiteRule(f, o, H.ids, ids2, SeqToSet(H.ids), -1, FALSE)
              ELSE If(IF embed THEN ~EmbedDenOK(f, o, a, b, G.ids) ELSE FDen(o) # FDen(f), V("den", f.label))
                   \cup If(o.f5 # f.f5, V("flag5", f.label)) \cup If(o.f3 # f.f3, V("flag3", f.label)))
      guestRule(f) ==
        LET o == The(O, f.label) IN
        SameMeta(f, o)
        \cup (IF FDen(f) = <<>>
              THEN \* a guest site keeps its place inside the guest
                   If(FDen(o) # <<>> \/ o.gaps # {i + g : g \in f.gaps}, V("site", f.label))
              ELSE If(FDen(o) # FDen(f), V("den", f.label))
                   \cup If(o.f5 # f.f5, V("flag5", f.label)) \cup If(o.f3 # f.f3, V("flag3", f.label)))
      once == Once(O, Labels(H) \cup Labels(G))
  IN ResRule(O, ids2, byt2)
     \cup If(Len(O.feats) # Len(H.feats) + Len(G.feats), V("count", "-"))
     \cup AllWFx(O, Ill(H) \cup Ill(G))
     \cup once
     \cup (IF once # {} THEN {} ELSE
             UNION {IF H.feats[j].wf THEN hostRule(H.feats[j]) ELSE {} : j \in 1..Len(H.feats)}
             \cup UNION {IF G.feats[j].wf THEN guestRule(G.feats[j]) ELSE {} : j \in 1..Len(G.feats)})
     \cup OrderOK(O)

(***************************************************************************)
(* Delete / Erase / Slice                                                  *)
(***************************************************************************)
\* rules for a feature that must be present after residues were removed
RemovedRule(f, o, preIds, postIds, surv, cut, flagsFree) ==
  SameMeta(f, o)
  \cup (IF FDen(f) = <<>>
        THEN SiteRule(f, o, preIds, postIds, surv, cut, FALSE)
        ELSE LET want == FilterDen(FDen(f), surv) IN
             If(FDen(o) # want, V("den", f.label))
             \cup (IF want = <<>>
                   THEN If(cut >= 0 /\ cut \notin o.gaps, V("site", f.label))
                   ELSE IF flagsFree \/ FDen(o) # want THEN {} ELSE FlagRule(f, o, surv)))

JudgeDelete(S, O, i, n, erase) ==
  LET ids2 == Cut(S.ids, i, n)
      byt2 == Cut(S.byt, i, n)
      surv == SeqToSet(ids2)
      mustDrop(f) == erase /\ f.key # "source" /\ FDen(f) # <<>> /\ FIds(f) \cap surv = {} /\ f.gaps = {}
      mayDrop(f)  == erase /\ f.key # "source" /\ (FDen(f) = <<>> \/ (FIds(f) \cap surv = {}))
      rule(f) ==
        LET n1 == Len(FeatsWith(O, f.label)) IN
        IF mustDrop(f) THEN If(n1 # 0, V("dropped", f.label))
        ELSE IF mayDrop(f) /\ n1 = 0 THEN {}
        ELSE IF n1 # 1 THEN V("once", f.label)
        ELSE RemovedRule(f, The(O, f.label), S.ids, ids2, surv, i, FALSE)
  IN ResRule(O, ids2, byt2)
     \cup AllWFx(O, Ill(S))
     \cup If(\E j \in 1..Len(O.feats) : O.feats[j].label \notin Labels(S), V("count", "-"))
     \cup UNION {IF S.feats[j].wf THEN rule(S.feats[j]) ELSE {} : j \in 1..Len(S.feats)}

\* Coordinate-bearing metadata follows a (forward) slice: every REFERENCE base
\* range is clipped to the window and re-based, a reference none of whose ranges
\* meets the window is dropped, references without base ranges are kept, and
\* the survivors are numbered 1..k in their old order.
RefRule(S, O, a1, b1) ==
  LET refs == S.raw.refs
      meets(x) == a1 < b1 /\ IMax(x[1], a1) < IMin(x[2], b1)
      want(r) == LET ol == SelectSeq(r.ranges, meets)
                 IN [j \in 1..Len(ol) |-> <<IMax(ol[j][1], a1) - a1, IMin(ol[j][2], b1) - a1>>]
      kept == SelectSeq(refs, LAMBDA r : ~r.ranged \/ want(r) # <<>>)
      got == O.raw.refs
  IN If(Len(got) # Len(kept), V("refs-count", "-"))
     \cup (IF Len(got) # Len(kept) THEN {} ELSE
          UNION {If(got[j].num # j, V("refs-number", ToString(j)))
                 \cup If(kept[j].ranged /\ (~got[j].ranged \/ got[j].ranges # want(kept[j])), V("refs-range", ToString(j)))
                 \cup If(~kept[j].ranged /\ got[j].info # kept[j].info, V("refs-info", ToString(j)))
                : j \in 1..Len(kept)})

IsFullLength(f, R) == Len(FDen(f)) = Len(R.ids) /\ FIds(f) = SeqToSet(R.ids) /\ Len(R.ids) > 0

JudgeSlice(S, O, a, b) ==
  LET L == Len(S.ids)
      a1 == NormIdx(a, L)
      b1 == NormIdx(b, L)
      wrap == b1 < a1
      ids2 == Window(S.ids, a, b)
      byt2 == Window(S.byt, a, b)
      surv == SeqToSet(ids2)
      \* a wrap-around slice is defined through Rotate: same exemption
      skip == {S.feats[j].label : j \in {q \in 1..Len(S.feats) : wrap /\ AmCrosses(S.feats[q].loc, L - a1, L)}}
      rule(f) ==
        LET n1 == Len(FeatsWith(O, f.label))
            want == FilterDen(FDen(f), surv)
        IN IF f.label \in skip THEN {} ELSE
           IF FDen(f) = <<>> THEN
             (IF n1 = 0 THEN {} ELSE IF n1 # 1 THEN V("once", f.label)
              ELSE SameMeta(f, The(O, f.label)) \cup SiteRule(f, The(O, f.label), S.ids, ids2, surv, -1, FALSE))
           ELSE IF want = <<>> THEN
             \* nothing of it is left: dropped, unless one of its zero-length
             \* sites lies inside the window (then either, but with no residues)
             (IF f.gaps = {} THEN If(n1 # 0, V("dropped", f.label))
              ELSE IF n1 = 0 THEN {} ELSE IF n1 # 1 THEN V("once", f.label)
              ELSE If(FDen(The(O, f.label)) # <<>>, V("den", f.label)))
           ELSE IF n1 # 1 THEN V("once", f.label)
           ELSE IF wrap /\ IsFullLength(f, S)
                THEN SameMeta(f, The(O, f.label))
                     \cup If(~IsCyclicShift(want, FDen(The(O, f.label)))
                             /\ FDen(The(O, f.label)) # want, V("den", f.label))
           ELSE RemovedRule(f, The(O, f.label), S.ids, ids2, surv, -1, f.key = "source")
  IN ResRule(O, ids2, byt2)
     \cup AllWFx(O, skip \cup Ill(S))
     \cup If(O.topo \notin {"linear", "na"}, V("topo", "-"))
     \cup (IF wrap \/ S.topo = "na" THEN {} ELSE RefRule(S, O, a1, b1))
     \cup If(\E j \in 1..Len(O.feats) : O.feats[j].label \notin Labels(S), V("count", "-"))
     \cup UNION {IF S.feats[j].wf THEN rule(S.feats[j]) ELSE {} : j \in 1..Len(S.feats)}

(***************************************************************************)
(* Rotate / Reverse / Complement / Transcribe / Concat                     *)
(***************************************************************************)
JudgeRotate(S, O, n) ==
  LET ids2 == Rot(S.ids, n)
      byt2 == Rot(S.byt, n)
      all  == SeqToSet(S.ids)
      L    == Len(S.ids)
      m    == IF L = 0 THEN 0 ELSE ((n % L) + L) % L
      \* C04 quantifies over ambiguous spans only when they do not cross the new origin
      skip == {S.feats[j].label : j \in {q \in 1..Len(S.feats) : L > 0 /\ AmCrosses(S.feats[q].loc, m, L)}}
      rule(f) ==
        LET o == The(O, f.label) IN
        IF f.label \in skip THEN {} ELSE
        SameMeta(f, o)
        \cup (IF FDen(f) = <<>>
              THEN SiteRule(f, o, S.ids, ids2, all, -1, TRUE)
              ELSE IF IsFullLength(f, S)
                   THEN If(~IsCyclicShift(FDen(f), FDen(o)), V("den", f.label))
                   ELSE If(FDen(o) # FDen(f), V("den", f.label))
                        \cup If(o.f5 # f.f5, V("flag5", f.label)) \cup If(o.f3 # f.f3, V("flag3", f.label)))
      once == Once(O, Labels(S))
  IN ResRule(O, ids2, byt2)
     \cup AllWFx(O, skip \cup Ill(S))
     \cup If(Len(O.feats) # Len(S.feats), V("count", "-"))
     \cup once
     \cup (IF once # {} THEN {} ELSE UNION {IF S.feats[j].wf THEN rule(S.feats[j]) ELSE {} : j \in 1..Len(S.feats)})
     \cup OrderOK(O)

JudgeReverse(S, O) ==
  LET ids2 == RevSeq(S.ids)
      byt2 == RevSeq(S.byt)
      all  == SeqToSet(S.ids)
      rule(f) ==
        LET o == The(O, f.label) IN
        SameMeta(f, o)
        \cup (IF FDen(f) = <<>>
              THEN \* the mirrored site keeps its two neighbours (swapped)
                   LET preAdj == {Adj(g, S.ids, FALSE) : g \in f.gaps}
                       postAdj == {Adj(g, ids2, FALSE) : g \in o.gaps}
                   IN If(FDen(o) # <<>> \/ o.gaps = {} \/ \E x \in preAdj : <<x[2], x[1]>> \notin postAdj, V("site", f.label))
              ELSE If(FDen(o) # RevSeq(FDen(f)), V("den", f.label))
                   \cup If(o.f5 # f.f3, V("flag5", f.label)) \cup If(o.f3 # f.f5, V("flag3", f.label)))
      once == Once(O, Labels(S))
  IN ResRule(O, ids2, byt2)
     \cup AllWFx(O, Ill(S))
     \cup If(Len(O.feats) # Len(S.feats), V("count", "-"))
     \cup once
     \cup (IF once # {} THEN {} ELSE UNION {IF S.feats[j].wf THEN rule(S.feats[j]) ELSE {} : j \in 1..Len(S.feats)})
     \cup OrderOK(O)

JudgeComplement(S, O) ==
  LET byt2 == [j \in 1..Len(S.byt) |-> CompOf(S.byt[j])]
      rule(f) ==
        LET o == The(O, f.label) IN
        SameMeta(f, o)
        \cup (IF FDen(f) = <<>>
              THEN If(FDen(o) # <<>> \/ o.gaps # f.gaps, V("site", f.label))
              ELSE If(FDen(o) # RevFlip(FDen(f)), V("den", f.label))
                   \cup If(o.f5 # f.f3, V("flag5", f.label)) \cup If(o.f3 # f.f5, V("flag3", f.label)))
      once == Once(O, Labels(S))
  IN ResRule(O, S.ids, byt2)
     \cup AllWFx(O, Ill(S))
     \cup If(Len(O.feats) # Len(S.feats), V("count", "-"))
     \cup once
     \cup (IF once # {} THEN {} ELSE UNION {IF S.feats[j].wf THEN rule(S.feats[j]) ELSE {} : j \in 1..Len(S.feats)})

JudgeTranscribe(S, O) ==
  LET byt2 == [j \in 1..Len(S.byt) |-> TransOf(S.byt[j])]
  IN ResRule(O, S.ids, byt2)
     \cup If(O.raw.feats # S.raw.feats, V("feats", "-"))

\* bag of (label, key, den, flags, props, sites) of a record whose residues
\* start at offset off of the identities ids2
FeatSigAt(f, off, ids2) == <<f.label, f.key, FDen(f), f.f5, f.f3, f.props,
                             IF FDen(f) = <<>> THEN {Adj(g + off, ids2, FALSE) : g \in f.gaps} ELSE {}>>
CountSigAt(R, sig, off, ids2) == Cardinality({j \in 1..Len(R.feats) : FeatSigAt(R.feats[j], off, ids2) = sig})

JudgeConcat(Rs, O) ==
  LET ids2 == FlatSeq([j \in 1..Len(Rs) |-> Rs[j].ids])
      byt2 == FlatSeq([j \in 1..Len(Rs) |-> Rs[j].byt])
      RECURSIVE Off(_)
      Off(j) == IF j = 1 THEN 0 ELSE Off(j - 1) + Len(Rs[j - 1].ids)
      sigs == UNION {{FeatSigAt(Rs[j].feats[q], Off(j), ids2) : q \in 1..Len(Rs[j].feats)} : j \in 1..Len(Rs)}
      RECURSIVE Tot(_)
      Tot(xs) == IF xs = <<>> THEN 0 ELSE Len(Head(xs).feats) + Tot(Tail(xs))
      RECURSIVE Sum(_, _)
      Sum(j, sig) == IF j = 0 THEN 0 ELSE CountSigAt(Rs[j], sig, Off(j), ids2) + Sum(j - 1, sig)
      ill == UNION {Ill(Rs[j]) : j \in 1..Len(Rs)}
  IN ResRule(O, ids2, byt2)
     \cup AllWFx(O, ill)
     \cup If(Len(O.feats) # Tot(Rs), V("count", "-"))
     \cup UNION {If(sig[1] \notin ill /\ CountSigAt(O, sig, 0, ids2) # Sum(Len(Rs), sig),
                     V(IF sig[3] = <<>> THEN "site" ELSE "den", sig[1])) : sig \in sigs}

(***************************************************************************)
(* Repair (C12): safety clauses on the abstract features.                  *)
(* class = (key, qualifiers).  Mergeable(a,b): same class, the 3' outer    *)
(* end of a is partial, the 5' outer start of b is partial and the two     *)
(* ends abut (any abutting ends for source features).                      *)
(***************************************************************************)
ClassOf(f) == <<f.key, f.props>>
PosOf(R, id) == CHOOSE q \in 1..Len(R.ids) : R.ids[q] = id
Abuts(R, a, b) ==   \* the 3' end of a meets the 5' start of b
  /\ FDen(a) # <<>> /\ FDen(b) # <<>>
  /\ LET x == FDen(a)[Len(FDen(a))]  y == FDen(b)[1]
     IN x[2] = y[2] /\ PosOf(R, y[1]) = PosOf(R, x[1]) + x[2]
Mergeable(R, a, b) ==
  /\ ClassOf(a) = ClassOf(b)
  /\ Abuts(R, a, b)
  /\ (a.key = "source" \/ (a.f3 /\ b.f5))

JudgeRepair(S, O) ==
  LET n == Len(S.feats)
      m == Len(O.feats)
      classes == {ClassOf(S.feats[j]) : j \in 1..n}
      cov(R, c) == UNION {FSet(R.feats[j]) : j \in {q \in 1..Len(R.feats) : ClassOf(R.feats[q]) = c}}
      anyMergeable == \E i \in 1..n, j \in 1..n : i # j /\ Mergeable(S, S.feats[i], S.feats[j])
      \* which inputs went into output o: same class and denotation contained
      srcsOf(o) == {j \in 1..n : ClassOf(S.feats[j]) = ClassOf(o) /\ FSet(S.feats[j]) \subseteq FSet(o) /\ FDen(S.feats[j]) # <<>>}
      \* the inputs of a merged output form a chain of mergeable pairs
      RECURSIVE Chain(_, _)
      Chain(last, rest) ==
        IF rest = {} THEN TRUE
        ELSE \E j \in rest : Mergeable(S, S.feats[last], S.feats[j]) /\ Chain(j, rest \ {j})
      chained(J) == J = {} \/ \E j \in J : Chain(j, J \ {j})
      outRule(o) ==
        IF FDen(o) = <<>> THEN {}
        ELSE LET J == srcsOf(o)
                 same == \E j \in J : FDen(S.feats[j]) = FDen(o)
             IN IF same THEN {}
                ELSE If(~\E K \in SUBSET J : K # {} /\ UNION {FSet(S.feats[j]) : j \in K} = FSet(o) /\ chained(K),
                        V("repair-merged-unrelated", o.label))
  IN ResRule(O, S.ids, S.byt)
     \cup AllWFx(O, Ill(S))
     \cup UNION {If(cov(O, c) # cov(S, c), V("repair-cover", c[1])) : c \in classes}
     \cup If(\E j \in 1..m : ClassOf(O.feats[j]) \notin classes, V("repair-class", "-"))
     \cup If(~anyMergeable /\ O.raw.feats # S.raw.feats, V("repair-changed", "-"))
     \cup UNION {outRule(O.feats[j]) : j \in 1..m}

\* B's table restores A's: every feature of A whose location consists of
\* points and ranges only (possibly joined / complemented; zero-length sites,
\* ambiguous spans and orders carry no partial markers to re-assemble by) is
\* in B exactly once with the same location (source features: the same up to
\* partial markers, which slicing strips)
RECURSIVE Restorable(_)
Restorable(t) ==
  CASE t.k \in {"pt", "rg"} -> TRUE
    [] t.k = "jn" -> \A j \in 1..Len(t.xs) : Restorable(t.xs[j])
    [] t.k = "cp" -> Restorable(t.x)
    [] OTHER -> FALSE
\* C is the record the repair was applied to (the concatenated pieces): the
\* restoration is claimed for a feature when its pieces form one chain of
\* mergeable pairs (a cut that falls between two parts of a join leaves
\* complete, non-abutting pieces, which Repair must NOT merge)
LawSameTable(A, B, C) ==
  LET RECURSIVE Chain(_, _, _)
      Chain(ps, last, rest) ==
        IF rest = {} THEN TRUE
        ELSE \E j \in rest : Mergeable(C, ps[last], ps[j]) /\ Chain(ps, j, rest \ {j})
      claimed(lab) == LET ps == FeatsWith(C, lab) IN
                      Len(ps) >= 1 /\ \E j \in 1..Len(ps) : Chain(ps, j, (1..Len(ps)) \ {j})
  IN If(A.ids # B.ids \/ A.byt # B.byt, V("law-res", "-"))
     \cup UNION {LET f == A.feats[j]  os == FeatsWith(B, f.label) IN
              IF ~Restorable(f.loc) \/ ~claimed(f.label) \/ (f.key = "source" /\ f.loc.k # "rg") THEN {}
              ELSE IF Len(os) # 1 THEN V("law-once", f.label)
              ELSE IF f.key = "source" THEN If(AsComplete(os[1].loc) # AsComplete(f.loc), V("law-loc", f.label))
              ELSE If(os[1].loc # f.loc \/ os[1].props # f.props \/ os[1].key # f.key, V("law-loc", f.label))
             : j \in 1..Len(A.feats)}

(***************************************************************************)
(* Laws relating records of one workspace (C04, C05, C10)                  *)
(***************************************************************************)
\* B restores A: same residues, and every feature of A is in B once with
\* the same denotation, markers and number of parts
LawRestored(A, B) ==
  If(A.ids # B.ids \/ A.byt # B.byt, V("law-res", "-"))
  \cup Once(B, Labels(A))
  \cup UNION {IF Len(FeatsWith(B, A.feats[j].label)) # 1 THEN {} ELSE
               LET f == A.feats[j]  o == The(B, f.label) IN
               If(FDen(o) # FDen(f), V("law-den", f.label))
               \cup If(FDen(f) # <<>> /\ (o.f5 # f.f5 \/ o.f3 # f.f3), V("law-flag", f.label))
               \cup If(FDen(f) # <<>> /\ ~HasAmb(f) /\ Len(o.parts) > Len(f.parts), V("law-parts", f.label))
             : j \in 1..Len(A.feats)}

\* the same, up to re-origin (cyclic den for full-length features)
LawSameMeaning(A, B) ==
  If(A.ids # B.ids \/ A.byt # B.byt, V("law-res", "-"))
  \cup Once(B, Labels(A))
  \cup UNION {IF Len(FeatsWith(B, A.feats[j].label)) # 1 \/ HasAmb(A.feats[j]) \/ ~A.feats[j].wf THEN {} ELSE
               LET f == A.feats[j]  o == The(B, f.label) IN
               IF IsFullLength(f, A)
               THEN If(~IsCyclicShift(FDen(f), FDen(o)), V("law-den", f.label))
               ELSE If(FDen(o) # FDen(f), V("law-den", f.label))
                    \cup If(FDen(f) # <<>> /\ (o.f5 # f.f5 \/ o.f3 # f.f3), V("law-flag", f.label))
             : j \in 1..Len(A.feats)}

\* the pieces of every feature of A together denote exactly its residues,
\* each once and on its original strand (cut ; concat)
LawPieces(A, B) ==
  If(A.ids # B.ids \/ A.byt # B.byt, V("law-res", "-"))
  \cup UNION {LET f == A.feats[j]
                  ps == FeatsWith(B, f.label)
                  all == FlatSeq([q \in 1..Len(ps) |-> FDen(ps[q])])
              IN If(SeqToSet(all) # FSet(f) \/ Len(all) # Len(FDen(f)), V("law-pieces", f.label))
             : j \in 1..Len(A.feats)}

\* bytes that extracting feature f from record R yields, by the denotation
ExtOf(R, f) ==
  LET d == FDen(f)
      pos(id) == CHOOSE q \in 1..Len(R.ids) : R.ids[q] = id
  IN [q \in 1..Len(d) |-> IF d[q][2] = 1 THEN R.byt[pos(d[q][1])] ELSE CompOf(R.byt[pos(d[q][1])])]

\* every feature extracts the same bytes from B as from A (reverse-complement);
\* that the real extraction equals ExtOf is checked at every step (ExtractRule)
LawSameExtract(A, B) ==
  Once(B, Labels(A))
  \cup UNION {IF Len(FeatsWith(B, A.feats[j].label)) # 1 \/ ~A.feats[j].wf THEN {} ELSE
              LET f == A.feats[j]  o == The(B, f.label) IN
              If(~o.wf \/ ExtOf(B, o) # ExtOf(A, f), V("law-extract", f.label))
             : j \in 1..Len(A.feats)}

(***************************************************************************)
(* Extraction (Region/Locate) agrees with the denotation (C05, C08)        *)
(***************************************************************************)
ExtractRule(R) ==
  UNION {LET fj == R.raw.feats[j]  f == R.feats[j] IN
         IF ~f.wf THEN {} ELSE If(~fj.extok \/ fj.ext # ExtOf(R, f), V("extract", fj.label))
        : j \in 1..Len(R.feats)}

=============================================================================
