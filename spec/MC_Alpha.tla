----------------------------- MODULE MC_Alpha -----------------------------
(* Design check and generator for C18.                                      *)
(*  - the derived complement is an involution (up to U->A->T) on all 256    *)
(*    bytes and agrees with the table used by the Seq machine               *)
(*  - the transcribed character classes of Match agree with LetterMatch     *)
(*    except for the query letter k (named deviation MatchK)                *)
(*  Cases: "tables" (256 bytes, full letter x letter matrix), "scan"        *)
(*  (all sequences <= MaxSeq and queries <= MaxQ over small alphabets).     *)
EXTENDS Alphabet, Seq, Json, IOUtils, SequencesExt, CSV

CONSTANTS Mode, MaxSeq, MaxQ, Batch, Stride, Offset

Alphas == << <<97, 99, 107>>, <<97, 110, 91>>, <<65, 116, 42>>, <<103, 46, 40>> >>   \* a c k | a n [ | A t * | g . (
SeqsUpTo(S, n) == UNION {SeqsOf(S, k) : k \in 0..n}
\* queries that would mean something to a regexp engine (Match must read every byte outside the alphabet
\* literally), against themselves, embedded in letters, and against plain letter sequences
ProbeQs == { <<97, 123, 50, 125>>, <<123, 49, 125>>, <<110, 123, 51, 44, 125, 116>>, <<97, 123, 49, 44, 50, 125>>, <<97, 124, 99>>, <<40, 97, 41>>,
             <<97, 43>>, <<94, 97>>, <<97, 36>>, <<92, 100>>, <<91, 97, 99, 93>>, <<46, 42>>, <<97, 63>>, <<92, 81, 97>>, <<97, 92>>, <<40, 63, 105, 41, 97>> }
ProbeSeqs(q) == { q, <<97, 97>> \o q \o <<97, 97>>, <<97, 97, 97, 97>>, <<97, 99, 103, 97, 99, 103, 116>>, <<99, 99, 97, 97, 99, 99>>, <<65, 67, 97, 99>> }
\* sequences with bytes above 0x7f (the UTF-8 form of U+017F "long s", to which a case-insensitive regexp
\* would fold s) against letter queries
\* (only U+017F: lower-casing the sequence, which Match does on a copy, turns U+212A and invalid UTF-8 into
\* byte strings of another length and shifts the reported offsets - sequences of that kind are left out)
HighSeqs == { <<97, 116, 197, 191, 97, 116>>, <<197, 191>>, <<99, 197, 191, 103, 197, 191>> }
HighQs == { <<115>>, <<83>>, <<98>>, <<118>>, <<100>>, <<116, 118, 97>>, <<97>>, <<99, 115>>, <<104>> }
ProbeItems == UNION {{<<sq, q>> : sq \in ProbeSeqs(q)} : q \in ProbeQs} \cup {<<sq, q>> : sq \in HighSeqs, q \in HighQs}
ScanItems == SetToSeq(ProbeItems \cup UNION {{<<s, q>> : s \in SeqsUpTo(SeqToSet(Alphas[a]), MaxSeq), q \in SeqsUpTo(SeqToSet(Alphas[a]), MaxQ) \ {<<>>}} : a \in 1..Len(Alphas)})
NItems == IF Mode = "tables" THEN 1 ELSE (Len(ScanItems) + Batch - 1) \div Batch
Picked == SelectSeq([j \in 1..NItems |-> j], LAMBDA j : (j + (j \div Stride) + (j \div (Stride * Stride))) % Stride = Offset % Stride)

LetterCodes == SetToSeq(Letters \cup {c + 32 : c \in Letters} \cup {45, 42, 88, 120})
BatchJson(b) ==
  IF Mode = "tables"
  THEN [id |-> "tables", fam |-> "tables", bytes |-> [j \in 1..256 |-> j - 1],
        pairs |-> SetToSeq({<<q, s>> : q \in SeqToSet(LetterCodes), s \in SeqToSet(LetterCodes)})]
  ELSE LET lo == (b - 1) * Batch  n == IF Len(ScanItems) - lo < Batch THEN Len(ScanItems) - lo ELSE Batch
       IN [id |-> "sc" \o ToString(b), fam |-> "scan", items |-> [j \in 1..n |-> [s |-> ScanItems[lo + j][1], q |-> ScanItems[lo + j][2]]]]

VARIABLES lo, hi, done
vars == <<lo, hi, done>>
Init == lo = 1 /\ hi = Len(Picked) /\ done = FALSE
Split ==
  /\ lo < hi
  /\ LET mid == (lo + hi) \div 2 IN \/ (lo' = lo /\ hi' = mid) \/ (lo' = mid + 1 /\ hi' = hi)
  /\ done' = FALSE
Emit ==
  /\ lo = hi /\ ~done
  /\ IF "CASES" \in DOMAIN IOEnv THEN CSVWrite("%1$s", <<ToJson(BatchJson(Picked[lo]))>>, IOEnv.CASES) ELSE TRUE
  /\ done' = TRUE /\ UNCHANGED <<lo, hi>>
Next == Split \/ Emit
Spec == Init /\ [][Next]_vars

DesignOK ==
  (lo = hi /\ ~done /\ Mode = "tables") =>
    LET bad == {<<"comp-table", c>> : c \in {c \in 0..255 : CompDerived(c) # CompOf(c) \/ TransDerived(c) # TransOf(c)}}
               \cup {<<"comp-involution", c>> : c \in {c \in 0..255 : CompDerived(CompDerived(c)) # (IF Up(c) = 85 THEN c - 1 ELSE c)}}
               \cup {x \in {<<"class", q, s>> : q \in SeqToSet(LetterCodes), s \in SeqToSet(LetterCodes)} :
                         Up(x[2]) # 75 /\ IsLetter(x[3]) /\ LetterMatchC(x[2], x[3]) # LetterMatch(x[2], x[3])}
    IN IF bad = {} THEN TRUE ELSE PrintT(<<"UNEXPLAINED", bad>>) /\ FALSE
=============================================================================
