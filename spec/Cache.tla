------------------------------- MODULE Cache -------------------------------
(***************************************************************************)
(* C13: the cache entry write protocol and its validation (cmd/cache).     *)
(*                                                                         *)
(* An entry file is three header slots (root, data, body digest) followed  *)
(* by the (compressed) body.  The digest is abstract and injective: the    *)
(* body slot holds the very content that was hashed, a zeroed slot ("Z")   *)
(* equals no digest (assumption: SHA-1 is collision resistant and never    *)
(* yields twenty zero bytes), a corrupted slot is "bad".                   *)
(*                                                                         *)
(* Writer protocol, one action per step of file.go (and one hook each):    *)
(*   Create      truncate, write the zero placeholder header               *)
(*   WriteBlock  hand a block to the compressor; any prefix of what was    *)
(*               written may have reached the file                         *)
(*   CloseBody   flush: the whole body is in the file                      *)
(*   HashBody    digest of the body as it is in the file                   *)
(*   WriteHeader one write of (root, data, digest) over the placeholder    *)
(* Environment: Crash (the writer stops at any step), Tear (the header     *)
(* write only partly reaches the disk), Corrupt (a byte of a slot or of a  *)
(* body block changes), Truncate, Extend, OtherKey (the entry is looked up *)
(* or stored under a different root/data digest).                          *)
(*                                                                         *)
(* Safety (OpenSafe): Open returns bytes only for a finalised, unfaulted   *)
(* entry of the requested key, and then exactly the bytes written.         *)
(***************************************************************************)
EXTENDS Integers, Sequences, FiniteSets, TLC

CONSTANT MaxBlocks      \* the client writes 0..MaxBlocks blocks

Blocks(n) == [j \in 1..n |-> j]          \* block contents are 1, 2, ..., n
\* closing the body appends the compressor's trailer (block 0), so even an
\* empty body occupies bytes behind the header
Closed(n) == Blocks(n) \o <<0>>
Payload(b) == SelectSeq(b, LAMBDA x : x # 0)

\* header slot values (records, so that TLC can compare them)
Z     == [t |-> "Z"]
Good  == [t |-> "good"]
Bad   == [t |-> "bad"]
Other == [t |-> "other"]
H(c)  == [t |-> "h", c |-> c]

VARIABLES pc,        \* "none" | "placeholder" | "writing" | "closed" | "hashed" | "final" | "crashed"
          hdr,       \* <<root, data, body>>: "Z" | "good" | "bad" | "other" ; body slot: "Z" | "bad" | <<content>>
          body,      \* blocks in the file (a corrupted block is -1)
          ext,       \* bytes appended behind the body
          nwant,     \* how many blocks the client writes in total
          nwritten,  \* blocks handed to the writer so far
          digest,    \* content hashed by HashBody
          short,     \* the file was cut inside the header
          fault,     \* "none" or the one fault that happened
          hist       \* the actions taken (for replay)
vars == <<pc, hdr, body, ext, nwant, nwritten, digest, short, fault, hist>>

Init ==
  /\ pc = "none" /\ hdr = <<Z, Z, Z>> /\ body = <<>> /\ ext = FALSE
  /\ nwant \in 0..MaxBlocks /\ nwritten = 0 /\ digest = <<>> /\ short = FALSE
  /\ fault = "none" /\ hist = <<>>

Act(a) == hist' = Append(hist, a)

Create ==
  /\ pc = "none" /\ fault = "none"
  /\ pc' = "placeholder" /\ hdr' = <<Z, Z, Z>> /\ body' = <<>>
  /\ Act([a |-> "create", n |-> nwant])
  /\ UNCHANGED <<ext, nwant, nwritten, digest, short, fault>>

\* the compressor buffers: after a write, the file holds some prefix of the
\* blocks written so far (never less than before)
WriteBlock ==
  /\ pc \in {"placeholder", "writing"} /\ fault = "none" /\ nwritten < nwant
  /\ nwritten' = nwritten + 1
  /\ \E k \in Len(body)..(nwritten + 1) : body' = Blocks(k)
  /\ pc' = "writing"
  /\ Act([a |-> "write", n |-> nwritten + 1])
  /\ UNCHANGED <<hdr, ext, nwant, digest, short, fault>>

CloseBody ==
  /\ pc \in {"placeholder", "writing"} /\ fault = "none" /\ nwritten = nwant
  /\ body' = Closed(nwant) /\ pc' = "closed"
  /\ Act([a |-> "closebody", n |-> 0])
  /\ UNCHANGED <<hdr, ext, nwant, nwritten, digest, short, fault>>

HashBody ==
  /\ pc = "closed" /\ fault = "none"
  /\ digest' = body /\ pc' = "hashed"
  /\ Act([a |-> "hash", n |-> 0])
  /\ UNCHANGED <<hdr, body, ext, nwant, nwritten, short, fault>>

WriteHeader ==
  /\ pc = "hashed" /\ fault = "none"
  /\ hdr' = <<Good, Good, H(digest)>> /\ pc' = "final"
  /\ Act([a |-> "header", n |-> 0])
  /\ UNCHANGED <<body, ext, nwant, nwritten, digest, short, fault>>

\* ------------------------------------------------------------ environment
Crash ==
  /\ pc \in {"placeholder", "writing", "closed", "hashed"} /\ fault = "none"
  /\ fault' = "crash" /\ pc' = "crashed"
  /\ Act([a |-> "crash", n |-> 0])
  /\ UNCHANGED <<hdr, body, ext, nwant, nwritten, digest, short>>

\* torn header write: k = number of complete slots written, the next one partly
Tear ==
  /\ pc = "hashed" /\ fault = "none"
  /\ \E k \in 0..2, part \in BOOLEAN :
       /\ hdr' = [j \in 1..3 |-> IF j <= k THEN <<Good, Good, H(digest)>>[j]
                                  ELSE IF j = k + 1 /\ part THEN Bad ELSE Z]
       /\ Act([a |-> "tear", n |-> 2 * k + (IF part THEN 1 ELSE 0)])
  /\ fault' = "tear" /\ pc' = "crashed"
  /\ UNCHANGED <<body, ext, nwant, nwritten, digest, short>>

\* a byte of header slot s (1..3) or of body block b changes
Corrupt ==
  /\ pc = "final" /\ fault = "none"
  /\ \/ \E s \in 1..3 : hdr' = [hdr EXCEPT ![s] = Bad] /\ body' = body /\ Act([a |-> "corrupt-slot", n |-> s])
     \/ \E b \in 1..Len(body) : body' = [body EXCEPT ![b] = -1] /\ hdr' = hdr /\ Act([a |-> "corrupt-block", n |-> b])
  /\ fault' = "corrupt"
  /\ UNCHANGED <<pc, ext, nwant, nwritten, digest, short>>

\* the file is cut: inside the header (n = 0), or after k body blocks
Truncate ==
  /\ pc = "final" /\ fault = "none"
  /\ \/ short' = TRUE /\ body' = <<>> /\ Act([a |-> "truncate-header", n |-> 0])
     \/ \E k \in 0..(Len(body) - 1) : body' = SubSeq(body, 1, k) /\ short' = FALSE /\ Act([a |-> "truncate-body", n |-> k])
  /\ fault' = "truncate"
  /\ UNCHANGED <<pc, hdr, ext, nwant, nwritten, digest>>

Extend ==
  /\ pc = "final" /\ fault = "none"
  /\ ext' = TRUE /\ fault' = "extend"
  /\ Act([a |-> "extend", n |-> 0])
  /\ UNCHANGED <<pc, hdr, body, nwant, nwritten, digest, short>>

\* the finished file is found under another key's name: its root (s = 1) or
\* data (s = 2) slot does not belong to the key that is asked for
OtherKey ==
  /\ pc = "final" /\ fault = "none"
  /\ \E s \in 1..2 : hdr' = [hdr EXCEPT ![s] = Other] /\ Act([a |-> "otherkey", n |-> s])
  /\ fault' = "otherkey"
  /\ UNCHANGED <<pc, body, ext, nwant, nwritten, digest, short>>

Next == Create \/ WriteBlock \/ CloseBody \/ HashBody \/ WriteHeader
        \/ Crash \/ Tear \/ Corrupt \/ Truncate \/ Extend \/ OtherKey
Spec == Init /\ [][Next]_vars

\* ------------------------------------------------------------------ Open
\* result of cache.Open on the file as it is now: <<"ok", bytes>> or <<"fail">>
OpenResult(h, b, e, sh, exists) ==
  IF ~exists \/ sh THEN <<"fail">>
  ELSE IF h[1] = Good /\ h[2] = Good /\ ~e /\ h[3] = H(b)
       THEN <<"ok", Payload(b)>> ELSE <<"fail">>
Open == OpenResult(hdr, body, ext, short, pc # "none")

OpenSafe ==
  Open[1] = "ok" => (pc = "final" /\ fault = "none" /\ Open[2] = Blocks(nwant))
\* a finished, unfaulted entry can be opened (the protocol is not vacuous)
OpenComplete ==
  (pc = "final" /\ fault = "none") => Open = <<"ok", Blocks(nwant)>>
\* the placeholder keeps every unfinished entry invalid
Unfinished == pc \in {"placeholder", "writing", "closed", "hashed"} => hdr = <<Z, Z, Z>>

(***************************************************************************)
(* Re-execution of a recorded history (used by Trace_Cache): the abstract  *)
(* file after the actions of hist, choosing for every write the file       *)
(* content that the recorded step reports (k = blocks visible on disk).    *)
(***************************************************************************)
FileState(p, h, b, e, sh, d, nw) == [pc |-> p, hdr |-> h, body |-> b, ext |-> e, short |-> sh, digest |-> d, nwant |-> nw]
InitFile == FileState("none", <<Z, Z, Z>>, <<>>, FALSE, FALSE, <<>>, 0)

Apply(f, a) ==
  CASE a.a = "create"    -> FileState("placeholder", <<Z, Z, Z>>, <<>>, FALSE, FALSE, <<>>, a.n)
    [] a.a = "write"     -> [f EXCEPT !.pc = "writing"]   \* what part of the body is visible does not matter: the header is still zero
    [] a.a = "closebody" -> [f EXCEPT !.pc = "closed", !.body = Closed(f.nwant)]
    [] a.a = "hash"      -> [f EXCEPT !.pc = "hashed", !.digest = f.body]
    [] a.a = "header"    -> [f EXCEPT !.pc = "final", !.hdr = <<Good, Good, H(f.digest)>>]
    [] a.a = "crash"     -> [f EXCEPT !.pc = "crashed"]
    [] a.a = "tear"      -> LET k == a.n \div 2  part == a.n % 2 = 1 IN
                            [f EXCEPT !.pc = "crashed",
                                      !.hdr = [j \in 1..3 |-> IF j <= k THEN <<Good, Good, H(f.digest)>>[j]
                                                              ELSE IF j = k + 1 /\ part THEN Bad ELSE Z]]
    [] a.a = "corrupt-slot"    -> [f EXCEPT !.hdr[a.n] = Bad]
    [] a.a = "corrupt-block"   -> [f EXCEPT !.body[a.n] = -1]
    [] a.a = "truncate-header" -> [f EXCEPT !.short = TRUE, !.body = <<>>]
    [] a.a = "truncate-body"   -> [f EXCEPT !.body = SubSeq(f.body, 1, a.n)]
    [] a.a = "extend"          -> [f EXCEPT !.ext = TRUE]
    [] a.a = "otherkey"        -> [f EXCEPT !.hdr[a.n] = Other]
    [] OTHER -> f

RECURSIVE Replay(_, _)
Replay(f, h) == IF h = <<>> THEN f ELSE Replay(Apply(f, Head(h)), Tail(h))

OpenOf(f) == OpenResult(f.hdr, f.body, f.ext, f.short, f.pc # "none")

=============================================================================
