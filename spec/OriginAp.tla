------------------------------ MODULE OriginAp ------------------------------
(* Unbounded supplement for C16 (Apalache, symbolic): for EVERY n in Nat    *)
(*   fromOriginLength(toOriginLength(n)) = n                                 *)
(*   toOriginLength(n) = 76*(n div 60) + last-line bytes                     *)
(* The closed forms are the transcriptions of seqio/origin.go (the same as   *)
(* ToLenC / FromLenC in TextIO.tla, restated with type annotations).         *)
EXTENDS Integers

VARIABLE
  \* @type: Int;
  n

\* @type: (Int) => Int;
ToLen(k) ==
  LET lines == k \div 60
      ret == lines * 76
      last == k % 60
  IN IF last = 0 THEN ret
     ELSE LET blocks == last \div 10
              ret2 == ret + 10 + blocks * 11
              lb == last % 10
          IN IF lb = 0 THEN ret2 ELSE ret2 + lb + 1

\* @type: (Int) => Int;
FromLen(m) ==
  LET lines == m \div 76
      ret == lines * 60
      last == m % 76
  IN IF last = 0 THEN ret
     ELSE LET l2 == last - 11
              blocks == l2 \div 11
          IN ret + blocks * 10 + (l2 % 11)

Init == n \in Nat
Next == UNCHANGED n
RoundTrip == FromLen(ToLen(n)) = n
Monotone == ToLen(n + 1) > ToLen(n)
Inv == RoundTrip /\ Monotone
=============================================================================
