---------------------------- MODULE Trace_Cache ----------------------------
(* Trace validation for C13.  Per case: the hook's step events must follow  *)
(* the write protocol of Cache.tla (order, zero placeholder until the final *)
(* header write), and every Open attempt on a (faulted) image must give the *)
(* result that the specification computes by re-executing the history.      *)
EXTENDS Cache, Json, IOUtils, SequencesExt

Trace == ndJsonDeserialize(IOEnv.TRACE)
N == Len(Trace)
VARIABLES l, ppc, psize, verdicts, nopen
tvars == <<l, ppc, psize, verdicts, nopen>>
\* the variables of the protocol machine are not used here (the history is
\* re-executed by Replay); they are pinned to the initial state
TInit == l = 1 /\ ppc = "none" /\ psize = 0 /\ verdicts = {} /\ nopen = 0 /\ Init /\ nwant = 0
If(c, vs) == IF c THEN vs ELSE {}
Tag(e, what, vs) == {<<l, e.case, what, v>> : v \in vs}

EvCase ==
  /\ Trace[l].ev = "case"
  /\ ppc' = "none" /\ psize' = 0
  /\ UNCHANGED <<verdicts, nopen>>

\* protocol order as seen through the hooks
NextPc(p, step) ==
  CASE step = "placeholder-written" /\ p = "none" -> "placeholder"
    [] step = "block-written" /\ p \in {"placeholder", "writing"} -> "writing"
    [] step = "body-closed" /\ p \in {"placeholder", "writing"} -> "closed"
    [] step = "body-hashed" /\ p = "closed" -> "hashed"
    [] step = "header-written" /\ p = "hashed" -> "final"
    [] OTHER -> "bad"

EvStep ==
  /\ Trace[l].ev = "step"
  /\ LET e == Trace[l]
         np == NextPc(ppc, e.step)
     IN /\ verdicts' = verdicts \cup Tag(e, e.step,
             If(np = "bad", {"protocol-order"})
             \cup If(np # "final" /\ ~e.hdrzero, {"header-before-final"})
             \cup If(np = "final" /\ e.hdrzero, {"final-header-zero"})
             \cup If(e.size < 60 \/ e.size < psize, {"file-shrank"}))
        /\ ppc' = IF np = "bad" THEN ppc ELSE np
        /\ psize' = e.size
  /\ UNCHANGED nopen

EvOpen ==
  /\ Trace[l].ev = "open"
  /\ LET e == Trace[l]
         want == OpenOf(Replay(InitFile, e.hist))
     IN verdicts' = verdicts \cup Tag(e, e.variant,
          IF e.panic # "" THEN {"open-panic"}
          ELSE If(e.ok /\ want[1] = "fail", {"opened-invalid-entry"})
               \cup If(~e.ok /\ want[1] = "ok", {"valid-entry-rejected"})
               \cup If(e.ok /\ want[1] = "ok" /\ ~e.equal, {"bytes-differ"}))
  /\ nopen' = nopen + 1
  /\ UNCHANGED <<ppc, psize>>

EvError ==
  /\ Trace[l].ev = "error"
  /\ verdicts' = verdicts \cup Tag(Trace[l], Trace[l].what, {"driver-error"})
  /\ UNCHANGED <<ppc, psize, nopen>>

\* a remark of the driver (how the body was chosen): no step of the protocol
EvNote == Trace[l].ev = "note" /\ UNCHANGED <<ppc, psize, verdicts, nopen>>
Consume == l <= N /\ (EvCase \/ EvStep \/ EvOpen \/ EvError \/ EvNote) /\ l' = l + 1
Finish ==
  /\ l = N + 1
  /\ LET vseq == SetToSeq(verdicts) IN
     ndJsonSerialize(IOEnv.VERDICTS,
        <<[consumed |-> l - 1, ops |-> nopen, nverdicts |-> Cardinality(verdicts)]>>
        \o [j \in 1..Len(vseq) |-> [line |-> vseq[j][1], case |-> vseq[j][2], op |-> vseq[j][3],
                                     rule |-> vseq[j][4], label |-> "-", calc |-> "-"]])
  /\ l' = l + 1 /\ UNCHANGED <<ppc, psize, verdicts, nopen>>
TNext == (Consume \/ Finish) /\ UNCHANGED vars
TSpec == TInit /\ [][TNext]_<<tvars, vars>>
TraceAccepted == TLCGet("stats").diameter = N + 2
=============================================================================
