---------------------------- MODULE MC_AlphaCli ----------------------------
(* Generator for the command-line clause of C18 ("gts search output          *)
(* features"): every record over {a,c,g,t} up to MaxSeq residues x every     *)
(* query over {a,c,n} (and upper case) up to MaxQ letters x -e x             *)
(* --no-complement; judged by Trace_AlphaCli with the same SearchAll /       *)
(* MatchScan as the library-level clause, on both strands.                   *)
EXTENDS Alphabet, Json, IOUtils, SequencesExt, CSV
CONSTANTS MaxSeq, MaxQ, Batch, Stride, Offset

SeqsUpTo(S, n) == UNION {[1..k -> S] : k \in 1..n}
Recs == SeqsUpTo({97, 99, 103, 116}, MaxSeq)
Queries == SeqsUpTo({97, 99, 110}, MaxQ) \cup {<<65, 67>>, <<78>>, <<103, 116, 110>>}
Items == SetToSeq({[s |-> s, q |-> q, exact |-> e, nocomp |-> nc] : s \in Recs, q \in Queries, e \in BOOLEAN, nc \in BOOLEAN})
NItems == (Len(Items) + Batch - 1) \div Batch
Picked == SelectSeq([j \in 1..NItems |-> j], LAMBDA j : (j + (j \div Stride) + (j \div (Stride * Stride))) % Stride = Offset % Stride)
BatchJson(b) ==
  LET lo == (b - 1) * Batch  n == IF Len(Items) - lo < Batch THEN Len(Items) - lo ELSE Batch
  IN [id |-> "cs" \o ToString(b), fam |-> "clisearch", items |-> [j \in 1..n |-> Items[lo + j]]]

VARIABLES lo, hi, done
vars == <<lo, hi, done>>
Init == lo = 1 /\ hi = Len(Picked) /\ done = FALSE
Split ==
  /\ lo < hi
  /\ LET mid == (lo + hi) \div 2 IN \/ (lo' = lo /\ hi' = mid) \/ (lo' = mid + 1 /\ hi' = hi)
  /\ done' = FALSE
Emit ==
  /\ lo = hi /\ ~done
  /\ IF "CASES" \in DOMAIN IOEnv THEN CSVWrite("%1$s", <<ToJson(BatchJson(Picked[lo]))>>, IOEnv.CASES) ELSE TRUE
  /\ done' = TRUE /\ UNCHANGED <<lo, hi>>
Next == Split \/ Emit
Spec == Init /\ [][Next]_vars
=============================================================================
