------------------------------ MODULE MC_Props ------------------------------
(* Bounded check of Props.tla and generator of operation histories (every   *)
(* maximal history of MaxOps operations is emitted once, as one case).      *)
EXTENDS Props, Json, IOUtils, CSV

HistId(h) == "pr" \o ToString(TLCGet("distinct")) \o "." \o ToString(Len(h))
EmitCase ==
  (Len(hist) = MaxOps /\ "CASES" \in DOMAIN IOEnv) =>
     CSVWrite("%1$s", <<ToJson([id |-> HistId(hist), fam |-> "props", ops |-> hist])>>, IOEnv.CASES)
=============================================================================
