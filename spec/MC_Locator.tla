----------------------------- MODULE MC_Locator -----------------------------
(***************************************************************************)
(* Generator for the locator clause of C08: a locator 'X@M' denotes the    *)
(* regions of X each resized by M                                          *)
(*   bare modifier        the whole sequence, resized                      *)
(*   bare point / range   (also under complement) itself                   *)
(*   bare selector        the matching features, in table order            *)
(*   '@M'                 every feature, resized                           *)
(* One case = one record (table x topology) and a batch of locators; the   *)
(* meaning is Cli!Located, judged by Trace_Locator against the regions     *)
(* that gts.AsLocator(string)(record) returns.                             *)
(***************************************************************************)
EXTENDS Cli, Json, IOUtils, SequencesExt, CSV
CONSTANTS Batch, Stride, Offset

F(key, lab, t) == [key |-> key, label |-> lab, loc |-> t, built |-> TRUE]
LL == 10
Tables == <<
  << F("source", "s", Rg(0, 10, FALSE, FALSE)), F("gene", "a", Rg(1, 4, FALSE, FALSE)), F("gene", "d", Rg(6, 9, FALSE, FALSE)),
     F("gene", "b", Cp(Rg(3, 7, FALSE, FALSE))), F("CDS", "c", Jn(<<Rg(0, 2, FALSE, FALSE), Rg(5, 8, FALSE, FALSE)>>)),
     F("misc_feature", "e", Pt(9)), F("tRNA", "t", Cp(Pt(4))) >>,
  << F("source", "s", Rg(0, 10, FALSE, FALSE)), F("gene", "a", Rg(2, 5, TRUE, FALSE)), F("gene", "b", Rg(2, 5, FALSE, TRUE)),
     F("CDS", "c", Cp(Jn(<<Rg(1, 3, FALSE, FALSE), Rg(4, 5, FALSE, FALSE), Rg(6, 9, FALSE, FALSE)>>))), F("misc_feature", "e", Bw(5)),
     F("gene", "d", Rg(7, 10, FALSE, FALSE)), F("tRNA", "t", Od(<<Rg(0, 2, FALSE, FALSE), Cp(Rg(3, 5, FALSE, FALSE))>>)) >>,
  << F("gene", "a", Jn(<<Rg(0, 3, FALSE, FALSE), Rg(4, 5, FALSE, FALSE), Rg(6, 10, FALSE, FALSE)>>)),
     F("CDS", "c", Jn(<<Cp(Rg(7, 9, FALSE, FALSE)), Cp(Rg(1, 3, FALSE, FALSE))>>)), F("CDS", "f", Am(2, 6)),
     F("misc_feature", "e", Jn(<<Pt(0), Pt(9)>>)) >>
>>

None == [k |-> "none"]
Mod1(k, ps) == {[k |-> k, p |-> p] : p \in ps}
Mod2(k, ps, qs) == {[k |-> k, p |-> p, q |-> q] : p \in ps, q \in qs}
Mods == {None} \cup Mod1("head", {-1, 0, 2}) \cup Mod1("tail", {-2, 0, 1})
        \cup Mod2("hh", {-1, 0, 1}, {0, 2, 3}) \cup Mod2("ht", {-1, 0, 1}, {-1, 0, 1}) \cup Mod2("tt", {-3, -1, 0}, {-1, 0, 1})
BareMods == Mod1("head", {0, 3, 10}) \cup Mod1("tail", {-10, -1, 0})
            \cup Mod2("hh", {0, 2}, {2, 5, 10}) \cup Mod2("ht", {0, 2}, {-2, 0}) \cup Mod2("tt", {-10, -4}, {-2, 0})
Locs == {Pt(0), Pt(3), Pt(9), Cp(Pt(0)), Cp(Pt(4)), Cp(Pt(9)), Rg(2, 6, FALSE, FALSE), Rg(0, 10, FALSE, FALSE), Rg(4, 5, FALSE, FALSE),
         Cp(Rg(2, 6, FALSE, FALSE)), Cp(Rg(4, 5, FALSE, FALSE)), Cp(Cp(Rg(2, 6, FALSE, FALSE))), Cp(Cp(Pt(3)))}
Specs == {[k |-> "sel", key |-> k] : k \in {"gene", "CDS", "misc_feature", "source", "tRNA", "nomatch"}}
         \cup {[k |-> "loc", t |-> t] : t \in Locs} \cup {[k |-> "all"]}
Locators == ({[x |-> x, m |-> m] : x \in Specs, m \in Mods} \ {[x |-> [k |-> "all"], m |-> None]})
            \cup {[x |-> [k |-> "mod", m |-> m], m |-> None] : m \in BareMods}
            \cup {[x |-> [k |-> "mod", m |-> m], m |-> m2] : m \in Mod2("hh", {2}, {8}), m2 \in Mods \ {None}}

LocSeq == SetToSeq(Locators)
NB == (Len(LocSeq) + Batch - 1) \div Batch
All == SetToSeq({<<ti, tp, b>> : ti \in 1..Len(Tables), tp \in 1..2, b \in 1..NB})
Picked == SelectSeq([j \in 1..Len(All) |-> j], LAMBDA j : (j + (j \div Stride) + (j \div (Stride * Stride))) % Stride = Offset % Stride)
Topos == <<"linear", "circular">>

CaseJson(j) ==
  LET x == All[j]
      lo == (x[3] - 1) * Batch
      n == IMin(Batch, Len(LocSeq) - lo)
  IN [id |-> "lc" \o ToString(j), fam |-> "locator",
      rec |-> [name |-> "r0", res |-> [q \in 1..LL |-> 96 + q], topo |-> Topos[x[2]], kind |-> "gb", feats |-> Tables[x[1]]],
      locs |-> [q \in 1..n |-> [loc |-> LocSeq[lo + q], locstr |-> PrintLocator(LocSeq[lo + q])]]]

VARIABLES lo, hi, done
vars == <<lo, hi, done>>
Init == lo = 1 /\ hi = Len(Picked) /\ done = FALSE
Split ==
  /\ lo < hi
  /\ LET mid == (lo + hi) \div 2 IN \/ (lo' = lo /\ hi' = mid) \/ (lo' = mid + 1 /\ hi' = hi)
  /\ done' = FALSE
Emit ==
  /\ lo = hi /\ ~done
  /\ IF "CASES" \in DOMAIN IOEnv THEN CSVWrite("%1$s", <<ToJson(CaseJson(Picked[lo]))>>, IOEnv.CASES) ELSE TRUE
  /\ done' = TRUE /\ UNCHANGED <<lo, hi>>
Next == Split \/ Emit
Spec == Init /\ [][Next]_vars

\* design check: on every directed region the transcribed Resize (which Located
\* uses) denotes the slice of the spliced coordinate
DesignOK ==
  (lo = hi /\ ~done) =>
    LET cj == CaseJson(Picked[lo])
        raw == [res |-> cj.rec.res, feats |-> cj.rec.feats]
        bad == {cj.locs[q].locstr : q \in {q \in 1..Len(cj.locs) : LocatorVerdicts(cj.locs[q].loc, raw, Located(cj.locs[q].loc, raw)) # {}}}
    IN IF bad = {} THEN TRUE ELSE PrintT(<<"UNEXPLAINED", cj.id, bad>>) /\ FALSE
=============================================================================
