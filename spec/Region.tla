------------------------------- MODULE Region -------------------------------
(***************************************************************************)
(* Regions, modifiers, Minimize / Invert (region.go, modifier.go).        *)
(*                                                                         *)
(* Terms:  Seg(h,t)   a contiguous region, 5' boundary h, 3' boundary t    *)
(*                    (t < h: on the complement strand)                    *)
(*         Regs(xs)   a multi-segment region (spliced in list order)       *)
(* Modifiers: [k |-> "head", p], [k |-> "tail", p], [k |-> "hh"|"ht"|"tt", p, q]*)
(*                                                                         *)
(* Abstract layer: Splice(r) - the positions a region denotes in 5'->3'    *)
(* order; Ext(r,k) - position k of the spliced coordinate, extended        *)
(* outward beyond both ends; ResizeDen(r,m) = [Ext(r,k) : k in lo..hi-1].  *)
(* Calculus layer: ApplyC / ResizeC / MinimizeC / InvertC transcribe Go.   *)
(***************************************************************************)
EXTENDS Integers, Sequences, FiniteSets, TLC

Seg(h, t) == [k |-> "seg", h |-> h, t |-> t]
Regs(xs)  == [k |-> "regs", xs |-> xs]

IMx(a, b) == IF b < a THEN a ELSE b
IMn(a, b) == IF a < b THEN a ELSE b
Abs(x) == IF x < 0 THEN 0 - x ELSE x

RECURSIVE FlatS(_)
FlatS(ss) == IF ss = <<>> THEN <<>> ELSE Head(ss) \o FlatS(Tail(ss))

\* flat list of segments of a region, in splice order
RECURSIVE Segs(_)
Segs(r) == IF r.k = "seg" THEN <<r>> ELSE FlatS([j \in 1..Len(r.xs) |-> Segs(r.xs[j])])

SegLen(s) == Abs(s.t - s.h)
RECURSIVE SumLen(_)
SumLen(ss) == IF ss = <<>> THEN 0 ELSE SegLen(Head(ss)) + SumLen(Tail(ss))
RLen(r) == SumLen(Segs(r))

\* positions of one segment in 5'->3' order: <<position, strand>>
SegDen(s) ==
  IF s.h <= s.t THEN [j \in 1..(s.t - s.h) |-> <<s.h + j - 1, 1>>]
  ELSE [j \in 1..(s.h - s.t) |-> <<s.h - j, -1>>]

Splice(r) == FlatS([j \in 1..Len(Segs(r)) |-> SegDen(Segs(r)[j])])

\* position k (0-based) of the spliced coordinate, extended outward
Ext(r, k) ==
  LET ss == Segs(r)
      n  == RLen(r)
      f  == ss[1]
      z  == ss[Len(ss)]
  IN IF 0 <= k /\ k < n THEN Splice(r)[k + 1]
     ELSE IF k < 0 THEN (IF f.h <= f.t THEN <<f.h + k, 1>> ELSE <<f.h - 1 - k, -1>>)
     ELSE LET d == k - n IN (IF z.h <= z.t THEN <<z.t + d, 1>> ELSE <<z.t - 1 - d, -1>>)

\* bounds [lo,hi) of a modifier relative to a region of length n
ModLo(m, n) ==
  CASE m.k = "head" -> m.p
    [] m.k = "tail" -> n + m.p
    [] m.k = "hh"   -> m.p
    [] m.k = "ht"   -> m.p
    [] m.k = "tt"   -> n + m.p
ModHiRaw(m, n) ==
  CASE m.k = "head" -> m.p
    [] m.k = "tail" -> n + m.p
    [] m.k = "hh"   -> m.q
    [] m.k = "ht"   -> n + m.q
    [] m.k = "tt"   -> n + m.q
ModHi(m, n) == IMx(ModLo(m, n), ModHiRaw(m, n))

ResizeDen(r, m) ==
  LET n == RLen(r)  lo == ModLo(m, n)  hi == ModHi(m, n)
  IN [j \in 1..(hi - lo) |-> Ext(r, lo + j - 1)]

\* a direction is well defined only if the first/last segment has one
Directed(r) == LET ss == Segs(r) IN ss # <<>> /\ ss[1].h # ss[1].t /\ ss[Len(ss)].h # ss[Len(ss)].t

PrintOff(c, p) == IF p = 0 THEN c ELSE IF p > 0 THEN c \o "+" \o ToString(p) ELSE c \o ToString(p)
PrintMod(m) ==
  CASE m.k = "head" -> PrintOff("^", m.p)
    [] m.k = "tail" -> PrintOff("$", m.p)
    [] m.k = "hh"   -> PrintOff("^", m.p) \o ".." \o PrintOff("^", m.q)
    [] m.k = "ht"   -> PrintOff("^", m.p) \o ".." \o PrintOff("$", m.q)
    [] m.k = "tt"   -> PrintOff("$", m.p) \o ".." \o PrintOff("$", m.q)

(***************************************************************************)
(* Calculus: Modifier.Apply and Regions.Resize as written in Go            *)
(***************************************************************************)
RECURSIVE ApplyC(_, _, _)
ApplyC(m, h, t) ==
  IF t < h THEN LET r == ApplyC(m, 0 - h, 0 - t) IN <<0 - r[1], 0 - r[2]>>
  ELSE CASE m.k = "head" -> <<h + m.p, h + m.p>>
         [] m.k = "tail" -> <<t + m.p, t + m.p>>
         [] m.k = "ht"   -> <<h + m.p, IMx(h + m.p, t + m.q)>>
         [] m.k = "hh"   -> <<h + m.p, IMx(h + m.p, h + m.q)>>
         [] m.k = "tt"   -> <<t + m.p, IMx(t + m.p, t + m.q)>>

Head0(p) == [k |-> "head", p |-> p]
HH(p, q) == [k |-> "hh", p |-> p, q |-> q]
HT(p, q) == [k |-> "ht", p |-> p, q |-> q]

RECURSIVE ResizeC(_, _)
\* the walk of Regions.Resize over the (possibly nested) element list
RECURSIVE Walk(_, _, _, _, _)
Walk(xs, k, pos, cur, rem) ==   \* returns <<index, residual>>
  IF k >= Len(xs) THEN <<cur, rem>>      \* k ranges over 1..Len(xs)-1 (Go: k+1 < len)
  ELSE LET n == RLen(xs[k])
       IN IF cur = k /\ n < rem THEN Walk(xs, k + 1, pos, k + 1, rem - n) ELSE Walk(xs, k + 1, pos, cur, rem)

ResizeC(r, m) ==
  IF r.k = "seg" THEN LET a == ApplyC(m, r.h, r.t) IN Seg(a[1], a[2])
  ELSE LET xs == r.xs
           n  == RLen(r)
           lower == ModLo(m, n)
           upper == ModHiRaw(m, n)
           wl == Walk(xs, 1, 0, 1, lower)
           wu == Walk(xs, 1, 0, 1, upper)
           left == wl[1]  lo == wl[2]
           right == wu[1] up == wu[2]
       IN IF left > right THEN ResizeC(xs[left], Head0(lo))
          ELSE IF left = right THEN ResizeC(xs[left], HH(lo, up))
          ELSE Regs( <<ResizeC(xs[left], HT(lo, 0))>>
                     \o SubSeq(xs, left + 1, right - 1)
                     \o <<ResizeC(xs[right], HH(0, up))>> )

(***************************************************************************)
(* Minimize / Invert                                                       *)
(***************************************************************************)
\* abstract: covered positions and their maximal runs
Covered(r) == {x[1] : x \in {Splice(r)[j] : j \in 1..Len(Splice(r))}}

RECURSIVE RunsFrom(_, _, _)
\* maximal runs of the set S within [x, n)
RunsFrom(S, x, n) ==
  IF x >= n THEN <<>>
  ELSE IF x \notin S THEN RunsFrom(S, x + 1, n)
  ELSE LET RECURSIVE End(_)
           End(y) == IF y < n /\ y \in S THEN End(y + 1) ELSE y
           e == End(x)
       IN <<Seg(x, e)>> \o RunsFrom(S, e, n)

Runs(S, n) == RunsFrom(S, 0, n)

\* calculus: flatten, sort (BySegment), merge overlapping/abutting neighbours
Fwd(s) == IF s.t < s.h THEN Seg(s.t, s.h) ELSE s
SegLess(a, b) == a.h < b.h \/ (a.h = b.h /\ a.t < b.t)
RECURSIVE InsertSorted(_, _)
InsertSorted(s, xs) ==
  IF xs = <<>> THEN <<s>>
  ELSE IF SegLess(s, Head(xs)) THEN <<s>> \o xs ELSE <<Head(xs)>> \o InsertSorted(s, Tail(xs))
RECURSIVE SortSegs(_)
SortSegs(xs) == IF xs = <<>> THEN <<>> ELSE InsertSorted(Head(xs), SortSegs(Tail(xs)))
RECURSIVE MergeC(_)
MergeC(xs) ==
  IF Len(xs) <= 1 THEN xs
  ELSE LET l == xs[1]  r == xs[2]
       IN IF l.t < r.h THEN <<l>> \o MergeC(Tail(xs))
          ELSE MergeC(<<Seg(IMn(l.h, r.h), IMx(l.t, r.t))>> \o Tail(Tail(xs)))
MinimizeC(r) == MergeC(SortSegs([j \in 1..Len(Segs(r)) |-> Fwd(Segs(r)[j])]))

RECURSIVE InvertFrom(_, _, _)
InvertFrom(ss, start, n) ==
  IF ss = <<>> THEN (IF start # n THEN <<Seg(start, n)>> ELSE <<>>)
  ELSE (IF start # Head(ss).h THEN <<Seg(start, Head(ss).h)>> ELSE <<>>) \o InvertFrom(Tail(ss), Head(ss).t, n)
InvertLinearC(r, n) == InvertFrom(MinimizeC(r), 0, n)
InvertCircularC(r, n) ==
  LET ss == MinimizeC(r)
      rr == InvertLinearC(r, n)
  IN IF ss[1].h = 0 \/ ss[Len(ss)].t = n THEN rr
     ELSE <<Regs(<<rr[Len(rr)], rr[1]>>)>> \o SubSeq(rr, 2, Len(rr) - 1)

(***************************************************************************)
(* Judgements (sets of rule names)                                         *)
(***************************************************************************)
If(c, vs) == IF c THEN vs ELSE {}

\* out: sequence of Seg
JudgeMinimize(r, out) ==
  LET cov == Covered(r)
      outcov == UNION {{x \in out[j].h..(out[j].t - 1) : TRUE} : j \in 1..Len(out)}
      nz == SelectSeq(out, LAMBDA s : s.h # s.t)   \* zero-length inputs may leave zero-length outputs
  IN If(outcov # cov, {"min-cover"})
     \cup If(\E j \in 1..Len(nz) : nz[j].t < nz[j].h, {"min-forward"})
     \cup If(\E j \in 1..(Len(nz) - 1) : ~(nz[j].t < nz[j + 1].h), {"min-order"})

\* inv: sequence of regions (Seg or Regs) returned by InvertLinear/Circular
JudgeInvert(r, n, inv, circular) ==
  LET cov == Covered(r) \cap (0..(n - 1))
      segs == FlatS([j \in 1..Len(inv) |-> Segs(inv[j])])
      cnt(x) == Cardinality({j \in 1..Len(segs) : segs[j].h <= x /\ x < segs[j].t})
      comp == (0..(n - 1)) \ cov
      \* zero-length input segments are judged on the coverage clauses only
      noZero == \A j \in 1..Len(Segs(r)) : Segs(r)[j].h # Segs(r)[j].t
      bothEndsFree == noZero /\ 0 \in comp /\ (n - 1) \in comp /\ comp # (0..(n - 1))
  IN If(\E j \in 1..Len(segs) : segs[j].t <= segs[j].h, {"inv-empty-or-backward"})
     \cup If(\E x \in 0..(n - 1) : cnt(x) # (IF x \in comp THEN 1 ELSE 0), {"inv-partition"})
     \cup If(\E j \in 1..Len(segs) : segs[j].h < 0 \/ segs[j].t > n, {"inv-range"})
     \cup If(circular /\ bothEndsFree /\
             ~(\E j \in 1..Len(inv) : inv[j].k = "regs" /\ Len(Segs(inv[j])) = 2
                  /\ Segs(inv[j])[1].t = n /\ Segs(inv[j])[2].h = 0), {"inv-circular-merge"})
     \cup If(~circular /\ \E j \in 1..Len(inv) : inv[j].k # "seg", {"inv-shape"})

\* resized: the region returned by Resize
JudgeResize(r, m, resized) ==
  IF ~Directed(r) THEN {}
  ELSE If(Splice(resized) # ResizeDen(r, m), {"resize-den"})

=============================================================================
