SPECIFICATION TSpec
CONSTANT Devs = {"RgPt", "BwRev", "BwOrigin", "WrapSlice"}
POSTCONDITION TraceAccepted
CHECK_DEADLOCK FALSE
