----------------------------- MODULE Trace_Props -----------------------------
(* Trace validation for Props.tla: the harness replays a history on real      *)
(* gts.Props values and logs, after every operation, the rows of both handles *)
(* and what every observer returns; each line is checked against the model    *)
(* state obtained by applying the same operation.                             *)
EXTENDS PropsOps, Json, IOUtils, SequencesExt

Trace == ndJsonDeserialize(IOEnv.TRACE)
N == Len(Trace)
VARIABLES l, model, verdicts, njudged
tvars == <<l, model, verdicts, njudged>>
TInit == l = 1 /\ model = [p |-> <<>>, c |-> <<>>, cl |-> FALSE] /\ verdicts = {} /\ njudged = 0

ObsOK(rows, o) ==
  /\ o.rows = rows
  /\ o.keys = KeysOf(rows)
  /\ o.items = ItemsOf(rows)
  /\ \A j \in 1..Len(o.probes) : LET q == o.probes[j] IN
       q.index = IndexOf(rows, q.k) /\ q.has = HasKey(rows, q.k) /\ q.get = GetOf(rows, q.k)

EvCase == Trace[l].ev = "case" /\ model' = [p |-> <<>>, c |-> <<>>, cl |-> FALSE] /\ UNCHANGED <<verdicts, njudged>>
EvOp ==
  /\ Trace[l].ev = "op"
  /\ LET e == Trace[l]
         m2 == ApplyOp(model, e.o)
         bad == (IF e.panic # "" THEN {"panic"} ELSE {})
                \cup (IF e.panic = "" /\ ~ObsOK(m2.p, e.p) THEN {"props-p"} ELSE {})
                \cup (IF e.panic = "" /\ m2.cl /\ ~ObsOK(m2.c, e.c) THEN {"props-clone"} ELSE {})
     IN /\ model' = m2
        /\ verdicts' = verdicts \cup {<<l, e.case, e.o.op \o " " \o e.o.h \o " " \o e.o.k, v, "-">> : v \in bad}
  /\ njudged' = njudged + 1
Consume == l <= N /\ (EvCase \/ EvOp) /\ l' = l + 1
Finish ==
  /\ l = N + 1
  /\ LET vseq == SetToSeq(verdicts) IN
     ndJsonSerialize(IOEnv.VERDICTS,
        <<[consumed |-> l - 1, ops |-> njudged, nverdicts |-> Cardinality(verdicts)]>>
        \o [j \in 1..Len(vseq) |-> [line |-> vseq[j][1], case |-> vseq[j][2], op |-> vseq[j][3],
                                     rule |-> vseq[j][4], label |-> vseq[j][5], calc |-> "-"]])
  /\ l' = l + 1 /\ UNCHANGED <<model, verdicts, njudged>>
TNext == Consume \/ Finish
TSpec == TInit /\ [][TNext]_tvars
TraceAccepted == TLCGet("stats").diameter = N + 2
=============================================================================
