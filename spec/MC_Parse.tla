------------------------------ MODULE MC_Parse ------------------------------
(* Generator for C07: mutation sequences of length <= MutLen over the seed  *)
(* records (line-level mutations applied by TLC, byte-level ones expanded    *)
(* by the harness), LF and CRLF; token strings for the small grammars.       *)
EXTENDS Parse, Json, IOUtils, SequencesExt, CSV
CONSTANTS Mode, MutLen, MaxTok, Batch, Stride, Offset

SeedNames == <<"s1", "s2", "sf">>
MutsOf(ls) ==
  {[a |-> "delete", i |-> i, v |-> ""] : i \in 1..Len(ls)}
  \cup {[a |-> "dup", i |-> i, v |-> ""] : i \in 1..Len(ls)}
  \cup {[a |-> "swap", i |-> i, v |-> ""] : i \in 1..(Len(ls) - 1)}
  \cup UNION {{[a |-> "replace", i |-> i, v |-> x[1]] : x \in Variants(ls[i])} : i \in 1..Len(ls)}
  \cup {[a |-> "append", i |-> 0, v |-> ""]}

\* all mutation sequences of length 0..MutLen (second mutation chosen on the mutated list)
RECURSIVE MutSeqs(_, _)
MutSeqs(ls, n) ==
  IF n = 0 THEN {<<>>}
  ELSE {<<>>} \cup UNION {{<<m>> \o r : r \in MutSeqs(ApplyMut(ls, m), n - 1)} : m \in MutsOf(ls)}

\* byte-level tail: none, truncate inside line i, flip bytes of line i
ByteOps(ls) == {[k |-> "none", i |-> 0]} \cup {[k |-> "trunc", i |-> i] : i \in 1..Len(ls)} \cup {[k |-> "flip", i |-> i] : i \in 1..Len(ls)}

GbCases == UNION {{<<sn, ms, [k |-> "none", i |-> 0]>> : ms \in MutSeqs(Seeds[sn], MutLen)} : sn \in {"s1", "s2", "sf"}}
           \cup UNION {{<<sn, <<>>, b>> : b \in ByteOps(Seeds[sn])} : sn \in {"s1", "s2", "sf"}}
           \cup UNION {{<<"s1", <<m>>, b>> : b \in {[k |-> "trunc", i |-> Len(ApplyMut(Seeds["s1"], m))]}} : m \in {x \in MutsOf(Seeds["s1"]) : x.a = "replace"}}
           \* a two-record stream (the seed appended to itself) cut inside every line of the SECOND record
           \cup {<<"s1", <<[a |-> "append", i |-> 0, v |-> ""]>>, [k |-> "trunc", i |-> i]>> : i \in (Len(Seed1) + 1)..(2 * Len(Seed1))}
           \* buffer alignment: an over-long / over-short ORIGIN block whose end takes every offset modulo the
           \* reader's 4096-byte buffer (the harness inserts a COMMENT continuation line of every length 0..4300)
           \cup {<<"s1", <<[a |-> "replace", i |-> 1, v |-> v]>>, [k |-> "pad", i |-> 18]>> : v \in {"declare-less", "declare-more"}}
           \cup {<<"s1", <<>>, [k |-> "pad", i |-> 18]>>}
           \* the text handed to the scanner in two reads, cut at every offset (every seed; Seed1 also with a wrong
           \* declared length, an empty DBLINK value and a shrunk ORGANISM sub-field)
           \cup {<<sn, <<>>, [k |-> "split", i |-> 0]>> : sn \in {"s1", "s2", "sf"}}
           \cup {<<"s1", <<[a |-> "replace", i |-> 1, v |-> v]>>, [k |-> "split", i |-> 0]>> : v \in {"declare-less", "declare-more"}}
           \cup {<<"s1", <<[a |-> "replace", i |-> 6, v |-> "dblink-empty"]>>, [k |-> "split", i |-> 0]>>,
                 <<"s1", <<[a |-> "replace", i |-> 10, v |-> "sub-shrunk"]>>, [k |-> "split", i |-> 0]>>}
GbSeq == SetToSeq(GbCases)

\* small grammars: token strings
GrammarTokens == [
  locator  |-> <<"gene", "/", "=", "@", "^", "$", "..", "+1", "-2", "3", "complement(", ")", "x">>,
  modifier |-> <<"^", "$", "..", "+1", "-2", "3", "+", "-", "x">>,
  selector |-> <<"gene", "/", "=", "\\", "[", "(", "*", "a", ".">>,
  date     |-> <<"29", "31", "00", "-", "FEB", "Feb", "02", "13", "2020", "1900", "x">>,
  molecule |-> <<"DNA", "RNA", "AA", "ss-", "ds-", "mRNA", "x">>,
  topology |-> <<"linear", "circular", "Linear", "CIRCULAR", "x", "">>,
  location |-> <<"1", "12", "..", ".", "^", "<", ">", ",", "(", ")", "join(", "order(", "complement(", "x">>,
  \* a standalone feature table (gts annotate, FEATURES block): whole lines as tokens
  ftable   |-> <<"     gene            1..2\n", "gene 3..4\n", "     CDS             join(1..2,\n", "                     3..4)\n",
                 "                     /gene=\"x\"\n", "                     /pseudo\n", "                     /note=\"a\n",
                 "                     b\"\n", "                     /=\n", "                     /codon_start=1\n", "\n",
                 "   /gene=\"y\"\n", "     gene            \n", "     misc_feature", "\r\n">> ]
Grammars == <<"locator", "modifier", "selector", "date", "molecule", "topology", "location", "ftable">>
RECURSIVE StrOf(_, _, _)
StrOf(toks, c, n) == IF n = 0 THEN "" ELSE StrOf(toks, c \div Len(toks), n - 1) \o toks[(c % Len(toks)) + 1]
RECURSIVE Pw(_, _)
Pw(b, n) == IF n = 0 THEN 1 ELSE b * Pw(b, n - 1)
GrStrings(g) == UNION {{StrOf(GrammarTokens[g], c, n) : c \in 0..(Pw(Len(GrammarTokens[g]), n) - 1)} : n \in 0..MaxTok}
\* longer location strings than the token enumeration reaches: descending, empty and contiguous-but-inverted
\* ranges inside joins (merged by the reduction), deep nesting, huge numbers, stray punctuation
LocProbes == {"join(7..3,4..1)", "join(2..1,2..1)", "join(5..4,5..2)", "order(1..2,join(<9..8,9..>3))", "3..1", "0", "0..0", "1..0",
              "join()", "join(1)", "complement()", "join(1..2,)", "1.2.3", "1^3", "5^1", "<>1", "join(complement(join(1..2,3..4)),5)",
              "99999999999999999999", "1..99999999999999999999", "-1", "join(1,1,1,1,1,1,1,1,1,1)", "complement(complement(complement(1)))",
              "order(join(order(1,2),3),4)", "1..2..3", "(1..2)", "join(1..2;3..4)", "join(3..1,1..3)", "join(1..3,3..1)", "join(<1..>1,<1..>1)",
              "complement(join(9..7,7..5))", "join(1^2,2..1)", "join(4..6,7..5)", "order(2..1)", "join(1.5,3.2)", "join(2.1,1..2)"}
FtProbes == {"     gene            join(7..3,4..1)\n", "     gene            join(2..1,2..1)\n                     /gene=\"x\"\n",
             "     gene            3..1\n     CDS             join(5..4,5..2)\n"}
\* small whole records that must be reported as errors (no ORIGIN and no CONTIG although residues are declared,
\* negative or signed lengths, a second LOCUS line inside a record, ORIGIN without a terminator)
GbErr == {"LOCUS       T                 -5 bp    DNA     linear   UNA 01-JAN-2000\nDEFINITION  t.\nACCESSION   T\n//\n",
          "LOCUS       T                  5 bp    DNA     linear   UNA 01-JAN-2000\nDEFINITION  t.\nACCESSION   T\n//\n",
          "LOCUS       T                 -1 bp    DNA     linear   UNA 01-JAN-2000\nORIGIN      \n//\n",
          "LOCUS       T                  5 bp    DNA     linear   UNA 01-JAN-2000\nORIGIN      \n        1 acgta\n",
          "LOCUS       T                  5 bp    DNA     linear   UNA 01-JAN-2000\nFEATURES             Location/Qualifiers\n     gene            1..2\n//\n",
          "LOCUS       T                  3 bp    DNA     linear   UNA 01-JAN-2000\nORIGIN      \n        1 acgta\n//\n"}
\* small whole records that are fine (controls: the probes above differ from these in one respect)
GbAny == {"LOCUS       T                  0 bp    DNA     linear   UNA 01-JAN-2000\nDEFINITION  t.\n//\n",
          "LOCUS       T                  5 bp    DNA     linear   UNA 01-JAN-2000\nORIGIN      \n        1 acgta\n//\n",
          "LOCUS       T                 +5 bp    DNA     linear   UNA 01-JAN-2000\nORIGIN      \n        1 acgta\n//\n"}
GrSeq == SetToSeq({<<"gbtext-err", s>> : s \in GbErr} \cup {<<"gbtext-any", s>> : s \in GbAny} \cup UNION {{<<g, s>> : s \in GrStrings(g)} : g \in {Grammars[j] : j \in 1..Len(Grammars)}}
                  \cup {<<"location", s>> : s \in LocProbes} \cup {<<"locator", s>> : s \in LocProbes}
                  \cup {<<"locator", s \o "@^-2..$+2">> : s \in LocProbes} \cup {<<"ftable", s>> : s \in FtProbes})

NItems == IF Mode = "genbank" THEN Len(GbSeq) ELSE (Len(GrSeq) + Batch - 1) \div Batch
Picked == SelectSeq([j \in 1..NItems |-> j], LAMBDA j : (j + (j \div Stride) + (j \div (Stride * Stride))) % Stride = Offset % Stride)

CaseJson(j) ==
  IF Mode = "genbank"
  THEN LET x == GbSeq[j]
           ls == ApplyAll(Seeds[x[1]], x[2])
       IN [id |-> "p" \o ToString(j), fam |-> "mut", seed |-> x[1], muts |-> x[2], byteop |-> x[3],
           lines |-> [q \in 1..Len(ls) |-> ls[q].text]]
  ELSE LET lo0 == (j - 1) * Batch  n == IF Len(GrSeq) - lo0 < Batch THEN Len(GrSeq) - lo0 ELSE Batch
       IN [id |-> "g" \o ToString(j), fam |-> "grammar", items |-> [q \in 1..n |-> [g |-> GrSeq[lo0 + q][1], s |-> GrSeq[lo0 + q][2]]]]

VARIABLES lo, hi, done
vars == <<lo, hi, done>>
Init == lo = 1 /\ hi = Len(Picked) /\ done = FALSE
Split ==
  /\ lo < hi
  /\ LET mid == (lo + hi) \div 2 IN \/ (lo' = lo /\ hi' = mid) \/ (lo' = mid + 1 /\ hi' = hi)
  /\ done' = FALSE
Emit ==
  /\ lo = hi /\ ~done
  /\ IF "CASES" \in DOMAIN IOEnv THEN CSVWrite("%1$s", <<ToJson(CaseJson(Picked[lo]))>>, IOEnv.CASES) ELSE TRUE
  /\ done' = TRUE /\ UNCHANGED <<lo, hi>>
Next == Split \/ Emit
Spec == Init /\ [][Next]_vars
=============================================================================
