---------------------------- MODULE Trace_Locator ----------------------------
(* Trace validation for the locator clause of C08: each event is one call   *)
(* gts.AsLocator(string)(record) on the real library.                        *)
EXTENDS Cli, Json, IOUtils, SequencesExt

Trace == ndJsonDeserialize(IOEnv.TRACE)
N == Len(Trace)
VARIABLES l, verdicts, njudged
vars == <<l, verdicts, njudged>>
TInit == l = 1 /\ verdicts = {} /\ njudged = 0

EvLocator ==
  /\ Trace[l].ev = "locator"
  /\ LET e == Trace[l]
         vs == IF e.panic # "" THEN {"panic"}
               ELSE IF e.err # "" THEN {"locator-rejected"}
               ELSE LocatorVerdicts(e.loc, e.pre, e.regions)
                    \cup (IF e.regions2 # e.regions THEN {"locator-second-call"} ELSE {})
     IN verdicts' = verdicts \cup {<<l, e.case, e.locstr, v, "-">> : v \in vs}
  /\ njudged' = njudged + 1

Consume == l <= N /\ EvLocator /\ l' = l + 1
Finish ==
  /\ l = N + 1
  /\ LET vseq == SetToSeq(verdicts) IN
     ndJsonSerialize(IOEnv.VERDICTS,
        <<[consumed |-> l - 1, ops |-> njudged, nverdicts |-> Cardinality(verdicts)]>>
        \o [j \in 1..Len(vseq) |-> [line |-> vseq[j][1], case |-> vseq[j][2], op |-> vseq[j][3],
                                     rule |-> vseq[j][4], label |-> vseq[j][5], calc |-> "-"]])
  /\ l' = l + 1 /\ UNCHANGED <<verdicts, njudged>>
TNext == Consume \/ Finish
TSpec == TInit /\ [][TNext]_vars
TraceAccepted == TLCGet("stats").diameter = N + 2
=============================================================================
