package main

// Driver for Stream.tla: one run of the gts binary on a generated stream of
// records; logs the records as the command reads them and the records (or
// lines) it writes.  No judgement here.

import (
	"io/ioutil"
	"os"
	"path/filepath"
	"strings"

	"github.com/go-gts/gts/seqio"
)

func runStream(env *cliEnv, c J, emit func(J)) {
	id := asStr(c["id"])
	dir, err := ioutil.TempDir("", "verif-st-")
	if err != nil {
		panic(err)
	}
	defer os.RemoveAll(dir)
	args := strList(c["args"])
	ev := J{"ev": "stream", "case": id, "cmd": c["cmd"], "cmdline": asStr(c["cmd"]) + " " + strings.Join(args, " "), "sem": c["sem"],
		"status": -1, "stderr": "", "parseerr": "", "ins": []interface{}{}, "outs": []interface{}{}, "lines": []interface{}{}}
	text := ""
	for _, rv := range asList(c["recs"]) {
		t, perr := writeGenBank(makeSeq(rv.(map[string]interface{})))
		if perr != nil {
			ev["parseerr"] = "cannot write the input record"
			emit(ev)
			return
		}
		text += t
	}
	pre, errs, pp := scanAll(text)
	if pp != nil || errs != "" || len(pre) != len(asList(c["recs"])) {
		ev["parseerr"] = "generated input not readable: " + errs
		emit(ev)
		return
	}
	ins := make([]interface{}, 0, len(pre))
	for _, s := range pre {
		ins = append(ins, observe(s, false))
	}
	ev["ins"] = ins
	inName := "in-" + id
	ioutil.WriteFile(filepath.Join(env.inputs, inName), []byte(text), 0644)
	defer os.Remove(filepath.Join(env.inputs, inName))
	cmd := asStr(c["cmd"])
	if sem, ok := c["sem"].(map[string]interface{}); ok && cmd == "annotate" {
		// the feature table file: the features of sem.adds, written by the INSDC formatter
		tbl := seqio.INSDCFormatter{Table: makeFeatures(asList(sem["adds"])), Prefix: "     ", Depth: 21}.String()
		tblName := "tbl-" + id
		ioutil.WriteFile(filepath.Join(env.inputs, tblName), []byte(tbl+"\n"), 0644)
		defer os.Remove(filepath.Join(env.inputs, tblName))
		for i, a := range args {
			if a == "{table}" {
				args[i] = "{file:" + tblName + "}"
			}
		}
	}
	res := env.run(dir, cmd, args, inName, "stdout", cmd != "length", 0)
	ev["status"] = res.status
	se := res.stderr
	if len(se) > 160 {
		se = se[:160]
	}
	ev["stderr"] = se
	if res.status != 0 {
		emit(ev)
		return
	}
	if cmd == "length" {
		lines := []interface{}{}
		for _, ln := range strings.Split(strings.TrimSuffix(string(res.out), "\n"), "\n") {
			if ln != "" || len(res.out) > 0 {
				lines = append(lines, ln)
			}
		}
		if len(res.out) == 0 {
			lines = []interface{}{}
		}
		ev["lines"] = lines
		emit(ev)
		return
	}
	outs, oerrs, op := scanAll(string(res.out))
	if op != nil {
		ev["parseerr"] = "panic while reading the output"
	} else if oerrs != "" {
		ev["parseerr"] = oerrs
	}
	list := make([]interface{}, 0, len(outs))
	for _, o := range outs {
		st, operr := observeSafe(o, false)
		if operr != nil {
			ev["parseerr"] = "cannot observe output"
			break
		}
		list = append(list, st)
	}
	ev["outs"] = list
	emit(ev)
}
