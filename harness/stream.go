package main

// Driver for Stream.tla: one run of the gts binary on a generated stream of
// records; logs the records as the command reads them and the records (or
// lines) it writes.  No judgement here.

import (
	"fmt"
	"io/ioutil"
	"os"
	"path/filepath"
	"strings"

	"github.com/go-gts/gts"
	"github.com/go-gts/gts/seqio"
)

func runStream(env *cliEnv, c J, emit func(J)) {
	id := asStr(c["id"])
	dir, err := ioutil.TempDir("", "verif-st-")
	if err != nil {
		panic(err)
	}
	defer os.RemoveAll(dir)
	args := strList(c["args"])
	ev := J{"ev": "stream", "case": id, "cmd": c["cmd"], "cmdline": asStr(c["cmd"]) + " " + strings.Join(args, " "), "sem": c["sem"],
		"status": -1, "stderr": "", "parseerr": "", "ins": []interface{}{}, "outs": []interface{}{}, "lines": []interface{}{}}
	text := ""
	for _, rv := range asList(c["recs"]) {
		t, perr := writeGenBank(makeSeq(rv.(map[string]interface{})))
		if perr != nil {
			ev["parseerr"] = "cannot write the input record"
			emit(ev)
			return
		}
		text += t
	}
	pre, errs, pp := scanAll(text)
	if pp != nil || errs != "" || len(pre) != len(asList(c["recs"])) {
		ev["parseerr"] = "generated input not readable: " + errs
		emit(ev)
		return
	}
	ins := make([]interface{}, 0, len(pre))
	for _, s := range pre {
		st, operr := observeSafe(s, false)
		if operr != nil {
			ev["parseerr"] = "cannot observe the input record"
			emit(ev)
			return
		}
		ins = append(ins, st)
	}
	ev["ins"] = ins
	inName := "in-" + id
	ioutil.WriteFile(filepath.Join(env.inputs, inName), []byte(text), 0644)
	defer os.Remove(filepath.Join(env.inputs, inName))
	cmd := asStr(c["cmd"])
	if sem, ok := c["sem"].(map[string]interface{}); ok && cmd == "annotate" {
		// the feature table file: the features of sem.adds, written by the INSDC formatter
		tbl := seqio.INSDCFormatter{Table: makeFeatures(asList(sem["adds"])), Prefix: "     ", Depth: 21}.String()
		tblName := "tbl-" + id
		ioutil.WriteFile(filepath.Join(env.inputs, tblName), []byte(tbl+"\n"), 0644)
		defer os.Remove(filepath.Join(env.inputs, tblName))
		for i, a := range args {
			if a == "{table}" {
				args[i] = "{file:" + tblName + "}"
			}
		}
	}
	if cmd == "split-join-repair" {
		// the pipeline  gts split <locator> | gts join | gts repair
		r1 := env.run(dir, "split", args, inName, "stdout", true, 0)
		ev["status"] = r1.status
		if r1.status != 0 {
			emit(ev)
			return
		}
		mid := "mid-" + id
		ioutil.WriteFile(filepath.Join(env.inputs, mid), r1.out, 0644)
		r2 := env.run(dir, "join", nil, mid, "stdout", true, 1)
		ev["status"] = r2.status
		if r2.status != 0 {
			os.Remove(filepath.Join(env.inputs, mid))
			emit(ev)
			return
		}
		ioutil.WriteFile(filepath.Join(env.inputs, mid), r2.out, 0644)
		defer os.Remove(filepath.Join(env.inputs, mid))
		inName = mid
		cmd = "repair"
		args = nil
	}
	res := env.run(dir, cmd, args, inName, "stdout", cmd != "length", 0)
	ev["status"] = res.status
	se := res.stderr
	if len(se) > 160 {
		se = se[:160]
	}
	ev["stderr"] = se
	if res.status != 0 {
		emit(ev)
		return
	}
	if cmd == "length" {
		lines := []interface{}{}
		for _, ln := range strings.Split(strings.TrimSuffix(string(res.out), "\n"), "\n") {
			if ln != "" || len(res.out) > 0 {
				lines = append(lines, ln)
			}
		}
		if len(res.out) == 0 {
			lines = []interface{}{}
		}
		ev["lines"] = lines
		emit(ev)
		return
	}
	outs, oerrs, op := scanAll(string(res.out))
	if op != nil {
		ev["parseerr"] = "panic while reading the output"
	} else if oerrs != "" {
		ev["parseerr"] = oerrs
	}
	list := make([]interface{}, 0, len(outs))
	for _, o := range outs {
		st, operr := observeSafe(o, false)
		if operr != nil {
			ev["parseerr"] = "cannot observe output"
			break
		}
		list = append(list, st)
	}
	ev["outs"] = list
	emit(ev)
}

// runCliSearch (C18, command-line clause): one run of `gts search` per item on a one-record GenBank file;
// logs the residues and the locations of the misc_feature features of the output.
func runCliSearch(env *cliEnv, c J, emit func(J)) {
	id := asStr(c["id"])
	dir, err := ioutil.TempDir("", "verif-cs-")
	if err != nil {
		panic(err)
	}
	defer os.RemoveAll(dir)
	for n, iv := range asList(c["items"]) {
		it := iv.(map[string]interface{})
		s := intsToBytes(it["s"])
		q := intsToBytes(it["q"])
		args := []string{}
		if asBool(it["exact"]) {
			args = append(args, "-e")
		}
		if asBool(it["nocomp"]) {
			args = append(args, "--no-complement")
		}
		args = append(args, "@"+string(q))
		ev := J{"ev": "clisearch", "case": id, "s": it["s"], "q": it["q"], "exact": it["exact"], "nocomp": it["nocomp"],
			"cmdline": "search " + strings.Join(args, " ") + " < " + string(s), "status": -1, "parseerr": "", "hits": []interface{}{}, "res": []int{}}
		rec := J{"name": "cs", "res": it["s"], "topo": "linear", "kind": "gb", "feats": []interface{}{}}
		text, perr := writeGenBank(makeSeq(rec))
		if perr != nil {
			ev["parseerr"] = "cannot write the input record"
			emit(ev)
			continue
		}
		inName := fmt.Sprintf("cs-%s-%d", id, n)
		ioutil.WriteFile(filepath.Join(env.inputs, inName), []byte(text), 0644)
		res := env.run(dir, "search", args, inName, "stdout", true, n)
		os.Remove(filepath.Join(env.inputs, inName))
		ev["status"] = res.status
		if res.status == 0 {
			outs, oerrs, op := scanAll(string(res.out))
			if op != nil || oerrs != "" || len(outs) != 1 {
				ev["parseerr"] = "output not readable: " + oerrs
			} else {
				ev["res"] = bytesToInts(outs[0].Bytes())
				hits := []interface{}{}
				for _, f := range outs[0].Features() {
					if f.Key != "misc_feature" {
						continue
					}
					switch v := f.Loc.(type) {
					case gts.Ranged:
						hits = append(hits, J{"h": v.Start, "t": v.End, "strand": 1})
					case gts.Point:
						hits = append(hits, J{"h": int(v), "t": int(v) + 1, "strand": 1})
					case gts.Complemented:
						switch w := v.Location.(type) {
						case gts.Ranged:
							hits = append(hits, J{"h": w.Start, "t": w.End, "strand": -1})
						case gts.Point:
							hits = append(hits, J{"h": int(w), "t": int(w) + 1, "strand": -1})
						default:
							hits = append(hits, J{"h": -1, "t": -1, "strand": -1})
						}
					default:
						hits = append(hits, J{"h": -1, "t": -1, "strand": 0})
					}
				}
				ev["hits"] = hits
			}
		}
		emit(ev)
	}
}

// runCliPipe (C01, command-line clause): gts A < input | gts B; logs the exit statuses, whether seqio reads
// what A and B wrote, and whether re-writing the records read from B's output reproduces it.
func runCliPipe(env *cliEnv, c J, emit func(J)) {
	id := asStr(c["id"])
	dir, err := ioutil.TempDir("", "verif-pp-")
	if err != nil {
		panic(err)
	}
	defer os.RemoveAll(dir)
	a := c["first"].(map[string]interface{})
	b := c["second"].(map[string]interface{})
	ev := J{"ev": "clipipe", "case": id, "cmdline": asStr(a["cmd"]) + " " + strings.Join(strList(a["args"]), " ") + " < " + asStr(c["input"]) + " | " + asStr(b["cmd"]) + " " + strings.Join(strList(b["args"]), " "),
		"status1": -1, "status2": -1, "len1": 0, "rerr1": "", "rerr": "", "fixed": false, "hang": false}
	r1 := env.run(dir, asStr(a["cmd"]), strList(a["args"]), asStr(c["input"]), "stdout", true, 0)
	ev["status1"] = r1.status
	ev["len1"] = len(r1.out)
	ev["hang"] = r1.hang
	if r1.status == 0 && len(r1.out) > 0 {
		if _, errs, pp := scanAll(string(r1.out)); pp != nil || errs != "" {
			ev["rerr1"] = "unreadable: " + errs
		}
		mid := "pipe-" + id
		ioutil.WriteFile(filepath.Join(env.inputs, mid), r1.out, 0644)
		r2 := env.run(dir, asStr(b["cmd"]), strList(b["args"]), mid, "stdout", true, 1)
		os.Remove(filepath.Join(env.inputs, mid))
		ev["status2"] = r2.status
		ev["hang"] = r2.hang
		if r2.status == 0 {
			seqs, errs, pp := scanAll(string(r2.out))
			if pp != nil {
				ev["rerr"] = "panic while reading"
			} else if errs != "" {
				ev["rerr"] = errs
			} else {
				var sb strings.Builder
				ok := true
				for _, s := range seqs {
					t, perr := writeGenBank(s)
					if perr != nil {
						ok = false
						break
					}
					sb.WriteString(t)
				}
				ev["fixed"] = ok && sb.String() == string(r2.out)
			}
		}
	}
	emit(ev)
}
