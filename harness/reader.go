package main

import "io"

// splitReader hands out its data in two reads, [0,k) and [k,len): the parser
// state's buffer ends at offset k until it asks for more. Sweeping k puts a
// buffer boundary at every position of the text.
type splitReader struct {
	data []byte
	k    int
	pos  int
}

func (r *splitReader) Read(p []byte) (int, error) {
	if r.pos >= len(r.data) {
		return 0, io.EOF
	}
	end := len(r.data)
	if r.pos < r.k {
		end = r.k
	}
	n := copy(p, r.data[r.pos:end])
	r.pos += n
	return n, nil
}

func newSplitReader(s string, k int) io.Reader {
	return &splitReader{data: []byte(s), k: k}
}
