package main

// Driver for C14 (cache transparency) and C15 (multi-site commands): runs
// the gts binary built from the tree.

import (
	"bufio"
	"bytes"
	"crypto/sha1"
	"encoding/hex"
	"encoding/json"
	"fmt"
	"io/ioutil"
	"os"
	"os/exec"
	"path/filepath"
	"strings"
	"time"
)

type cliEnv struct {
	gts    string
	data   string
	inputs string // directory with the prepared input files
}

func (e *cliEnv) prepare() {
	dir, err := ioutil.TempDir("", "verif-cli-in-")
	if err != nil {
		panic(err)
	}
	e.inputs = dir
	read := func(n string) []byte {
		b, err := ioutil.ReadFile(filepath.Join(e.data, n))
		if err != nil {
			fmt.Fprintln(os.Stderr, "missing corpus file:", err)
			os.Exit(2)
		}
		return b
	}
	phix, part, ecoli, pbat, fasta := read("NC_001422.gb"), read("NC_001422_part.gb"), read("NC_000913.3.min.gb"), read("pBAT5.txt"), read("NC_001422.fasta")
	w := func(n string, b []byte) { ioutil.WriteFile(filepath.Join(dir, n), b, 0644) }
	w("phix", phix)
	w("part", part)
	w("ecoli", ecoli)
	w("pbat", pbat)
	w("fasta", fasta)
	w("guest", part)
	w("guest2", pbat)
	w("two", append(append([]byte(nil), phix...), part...))
	// secondary inputs with the SAME residues as "part" but a different feature table / record framing
	w("partB", bytes.Replace(part, []byte("/product=\"major transcript\""), []byte("/product=\"minor transcript\""), 1))
	// a feature with two values of one qualifier (the value separator of gts query shows in the output)
	w("partD", bytes.Replace(part, []byte("/product=\"major transcript\"\n"), []byte("/product=\"major transcript\"\n                     /note=\"alpha\"\n                     /note=\"beta\"\n"), 1))
	w("partC", bytes.Replace(part, []byte("     gene            16..>133"), []byte("     gene            26..>133"), 1))
	w("trunc", phix[:len(phix)*6/10])
	w("table1", []byte("     gene            100..200\n                     /gene=\"vf1\"\n"))
	w("table2", []byte("     CDS             complement(300..420)\n                     /product=\"vf2\"\n     gene            10..20\n"))
}

func (e *cliEnv) path(name string) string { return filepath.Join(e.inputs, name) }

func (e *cliEnv) subst(arg string) string {
	if strings.HasPrefix(arg, "{file:") && strings.HasSuffix(arg, "}") {
		return e.path(arg[6 : len(arg)-1])
	}
	// {byte:XX} stands for one raw byte (arguments are byte strings, not necessarily UTF-8)
	for {
		i := strings.Index(arg, "{byte:")
		if i < 0 || len(arg) < i+9 || arg[i+8] != '}' {
			break
		}
		var b byte
		fmt.Sscanf(arg[i+6:i+8], "%02x", &b)
		arg = arg[:i] + string([]byte{b}) + arg[i+9:]
	}
	return arg
}

type runResult struct {
	status int
	out    []byte
	stderr string
	hang   bool
}

func (e *cliEnv) run(caseDir string, cmd string, args []string, input string, sink string, nocache bool, seqno int) runResult {
	argv := []string{cmd}
	if nocache {
		argv = append(argv, "--no-cache")
	}
	outPath := ""
	if strings.HasPrefix(sink, "file") {
		// "file" + extension: the extension selects the output format
		outPath = filepath.Join(caseDir, fmt.Sprintf("out.%d%s", seqno, sink[4:]))
		argv = append(argv, "-o", outPath)
	}
	// options first, then positional arguments
	var opts, pos []string
	for i := 0; i < len(args); i++ {
		a := args[i]
		if strings.HasPrefix(a, "-") && len(a) > 1 && !isNumberLike(a) {
			opts = append(opts, a)
			continue
		}
		pos = append(pos, e.subst(a))
	}
	_ = opts
	// keep the order given by the case: options (with their values) precede positionals already
	argv = append(argv, substAll(e, args)...)
	c := exec.Command(e.gts, argv...)
	c.Env = []string{"XDG_CACHE_HOME=" + filepath.Join(caseDir, "cache"), "HOME=" + caseDir, "PATH=/usr/bin:/bin", "TMPDIR=" + caseDir}
	if input != "" {
		f, err := os.Open(e.path(input))
		if err == nil {
			defer f.Close()
			c.Stdin = f
		}
	} else {
		c.Stdin = bytes.NewReader(nil)
	}
	var stdout, stderr bytes.Buffer
	c.Stdout, c.Stderr = &stdout, &stderr
	if err := c.Start(); err != nil {
		return runResult{status: -1, stderr: err.Error()}
	}
	done := make(chan error, 1)
	go func() { done <- c.Wait() }()
	res := runResult{}
	select {
	case err := <-done:
		if err != nil {
			if ee, ok := err.(*exec.ExitError); ok {
				res.status = ee.ExitCode()
			} else {
				res.status = -1
			}
		}
	case <-time.After(60 * time.Second):
		c.Process.Kill()
		res.hang = true
		res.status = -2
	}
	res.out = stdout.Bytes()
	if outPath != "" {
		b, _ := ioutil.ReadFile(outPath)
		res.out = append(append([]byte(nil), res.out...), b...)
		os.Remove(outPath)
	}
	res.stderr = stderr.String()
	return res
}

func isNumberLike(a string) bool {
	return len(a) > 1 && a[0] == '-' && a[1] >= '0' && a[1] <= '9'
}

func substAll(e *cliEnv, args []string) []string {
	out := make([]string, len(args))
	for i, a := range args {
		out[i] = e.subst(a)
	}
	return out
}

func strList(v interface{}) []string {
	l := asList(v)
	out := make([]string, len(l))
	for i, x := range l {
		out[i] = asStr(x)
	}
	return out
}

func countEntries(dir string) int {
	fs, err := ioutil.ReadDir(filepath.Join(dir, "cache", "gts-cache"))
	if err != nil {
		return 0
	}
	return len(fs)
}

func cliMain(args []string) {
	env := &cliEnv{}
	for i := 0; i+1 < len(args); i += 2 {
		switch args[i] {
		case "-gts":
			env.gts = args[i+1]
		case "-data":
			env.data = args[i+1]
		}
	}
	if env.gts == "" {
		fmt.Fprintln(os.Stderr, "cli driver needs -gts <binary>")
		os.Exit(2)
	}
	if env.data == "" {
		env.data = "/repo/seqio/testdata"
	}
	env.prepare()
	defer os.RemoveAll(env.inputs)
	in := bufio.NewReaderSize(os.Stdin, 1<<20)
	out := bufio.NewWriterSize(os.Stdout, 1<<20)
	defer out.Flush()
	emit := func(ev J) {
		b, _ := json.Marshal(ev)
		out.Write(b)
		out.WriteByte('\n')
	}
	for {
		line, err := in.ReadBytes('\n')
		if len(line) > 1 {
			if c := decodeCase(line); c != nil {
				if _, ok := c["runs"]; ok {
					runHistory(env, c, emit)
				} else if _, ok := c["multisite"]; ok {
					runMultiSite(env, c, emit)
				} else if asStr(c["fam"]) == "stream" {
					runStream(env, c, emit)
				} else if asStr(c["fam"]) == "clisearch" {
					runCliSearch(env, c, emit)
				} else if asStr(c["fam"]) == "clipipe" {
					runCliPipe(env, c, emit)
				} else if asStr(c["fam"]) == "cachedir" {
					runCacheDir(env, c, emit)
				}
			}
		}
		if err != nil {
			break
		}
	}
}

func runHistory(env *cliEnv, c J, emit func(J)) {
	id := asStr(c["id"])
	dir, err := ioutil.TempDir("", "verif-cli-")
	if err != nil {
		panic(err)
	}
	defer os.RemoveAll(dir)
	emit(J{"ev": "case", "case": id})
	for i, rv := range asList(c["runs"]) {
		r := rv.(map[string]interface{})
		res := env.run(dir, asStr(r["cmd"]), strList(r["args"]), asStr(r["input"]), asStr(r["sink"]), asBool(r["nocache"]), i)
		sum := sha1.Sum(res.out)
		se := res.stderr
		if len(se) > 120 {
			se = se[:120]
		}
		emit(J{"ev": "run", "case": id, "key": r["key"], "nocache": r["nocache"], "sink": r["sink"], "status": res.status,
			"out": hex.EncodeToString(sum[:]), "outlen": len(res.out), "nentries": countEntries(dir), "stderr": se, "hang": res.hang})
	}
}
