package main

// Replay driver for the Seq state machine (spec/Seq.tla): executes
// TLC-generated behaviours on the real library and logs the raw observed
// state after every action.  It contains no oracle and no expected values.

import (
	"bufio"
	"encoding/json"
	"fmt"
	"hash/crc32"
	"os"
	"regexp"
	"strings"

	"github.com/go-gts/gts"
	"github.com/go-gts/gts/seqio"
)

type featSpec struct {
	Key   string
	Label string
	Loc   interface{}
	Built bool
}

func uniqByte(base, k int) byte {
	// distinct printable residues: a..z A..Z 0..9 and a few more, from `base`
	const alphabet = "abcdefghijklmnopqrstuvwxyzABCDEFGHIJKLMNOPQRSTUVWXYZ0123456789!#$%&()*+,-./:;=?@[]^_{|}~"
	return alphabet[(base+k)%len(alphabet)]
}

func makeResidues(m J) []byte {
	if r, ok := m["res"]; ok {
		switch v := r.(type) {
		case string:
			return []byte(v)
		case []interface{}:
			p := make([]byte, len(v))
			for i, x := range v {
				p[i] = byte(asInt(x))
			}
			return p
		}
	}
	L := asInt(m["L"])
	base := asInt(m["base"])
	p := make([]byte, L)
	switch asStr(m["alpha"]) {
	case "acgt":
		const nt = "acgtrykmbdhvnACGTRYKMBDHVNu"
		for i := range p {
			p[i] = nt[(base+i*7)%len(nt)]
		}
	default:
		for i := range p {
			p[i] = uniqByte(base, i)
		}
	}
	return p
}

func makeFeatures(list []interface{}) gts.FeatureSlice {
	ff := make(gts.FeatureSlice, 0, len(list))
	for _, x := range list {
		m := x.(map[string]interface{})
		var loc gts.Location
		if asBool(m["built"]) {
			loc = builtFromJSON(m["loc"])
		} else {
			loc = locFromJSON(m["loc"])
		}
		props := gts.Props{}
		hasLabel := false
		for _, q := range asList(m["props"]) {
			if kv := asList(q); len(kv) > 0 && asStr(kv[0]) == "label" {
				hasLabel = true
			}
		}
		if l := asStr(m["label"]); l != "" && !hasLabel && !asBool(m["nolabel"]) {
			props.Add("label", l)
		}
		for _, q := range asList(m["props"]) {
			kv := asList(q)
			vals := make([]string, 0, len(kv))
			for _, s := range kv[1:] {
				vals = append(vals, asStr(s))
			}
			props.Add(asStr(kv[0]), vals...)
		}
		ff = append(ff, gts.Feature{Key: asStr(m["key"]), Loc: loc, Props: props})
	}
	return ff
}

func baseFields(name string, topo gts.Topology) seqio.GenBankFields {
	return seqio.GenBankFields{
		LocusName:  name,
		Molecule:   gts.DNA,
		Topology:   topo,
		Division:   "SYN",
		Date:       seqio.Date{Year: 2020, Month: 2, Day: 29},
		Definition: "verif record " + name,
		Accession:  "VF000001",
		Version:    "VF000001.1",
		Source:     seqio.Organism{Species: "synthetic construct", Name: "synthetic construct", Taxon: []string{"other sequences", "artificial sequences"}},
	}
}

// makeSeq builds the real value for a record description. The storage
// configuration (for the purity property) is chosen by "store".
var sharedBufs = map[string][]byte{}
var sharedTables = map[string]gts.FeatureSlice{}

func makeSeq(m J) gts.Sequence {
	p := makeResidues(m)
	ff := makeFeatures(asList(m["feats"]))
	switch asStr(m["store"]) {
	case "adjacent":
		// several records of one case live side by side in ONE backing array
		name := asStr(m["buf"])
		buf, ok := sharedBufs[name]
		if !ok {
			buf = make([]byte, 256)
			for i := range buf {
				buf[i] = '#'
			}
			sharedBufs[name] = buf
		}
		off := asInt(m["off"])
		copy(buf[off:], p)
		p = buf[off : off+len(p)]
		// ... and their feature tables are consecutive sub-slices of ONE shared table
		// (a write past the end of one table lands in the next record's table)
		tbl, ok := sharedTables[name]
		if !ok {
			tbl = make(gts.FeatureSlice, 0, 64)
		}
		start := len(tbl)
		tbl = append(tbl, ff...)
		sharedTables[name] = tbl
		ff = tbl[start : start+len(ff)]
	case "spare", "spareparsed":
		q := make([]byte, len(p), len(p)+64)
		copy(q, p)
		p = q
		gg := make(gts.FeatureSlice, len(ff), len(ff)+8)
		copy(gg, ff)
		ff = gg
	case "sub":
		q := make([]byte, len(p)+32)
		for i := range q {
			q[i] = '#'
		}
		copy(q[8:], p)
		p = q[8 : 8+len(p)]
		gg := make(gts.FeatureSlice, len(ff)+4)
		copy(gg[1:], ff)
		ff = gg[1 : 1+len(ff)]
	}
	topo := gts.Linear
	if asStr(m["topo"]) == "circular" {
		topo = gts.Circular
	}
	switch asStr(m["kind"]) {
	case "basic":
		return gts.New(nil, ff, p)
	case "fasta":
		return gts.New("desc "+asStr(m["name"]), ff, p)
	default:
		fields := baseFields(strings.ToUpper(asStr(m["name"])), topo)
		if refs := asList(m["refs"]); refs != nil {
			for i, r := range refs {
				info := asStr(r)
				if m, ok := r.(map[string]interface{}); ok {
					info = asStr(m["info"])
				}
				fields.References = append(fields.References, seqio.Reference{Number: i + 1, Info: info, Authors: "A,B.", Title: "T", Journal: "J"})
			}
		}
		if asStr(m["store"]) == "parsedorigin" || asStr(m["store"]) == "spareparsed" {
			return seqio.GenBank{Fields: fields, Table: ff, Origin: &seqio.Origin{Buffer: p, Parsed: true}}
		}
		return seqio.GenBank{Fields: fields, Table: ff, Origin: seqio.NewOrigin(p)}
	}
}

func propsToJSON(props gts.Props) []interface{} {
	out := make([]interface{}, len(props))
	for i, kv := range props {
		row := make([]interface{}, len(kv))
		for j, s := range kv {
			row[j] = s
		}
		out[i] = row
	}
	return out
}

func labelOf(f gts.Feature) string {
	if vv := f.Props.Get("label"); len(vv) > 0 {
		return vv[0]
	}
	// a feature without any qualifier value is identified by a value-less marker qualifier "t<j>"
	for _, row := range f.Props {
		if len(row) == 1 && strings.HasPrefix(row[0], "t") {
			return row[0]
		}
	}
	return ""
}

func topoOf(seq gts.Sequence) string {
	switch info := seq.Info().(type) {
	case seqio.GenBankFields:
		return info.Topology.String()
	}
	return "na"
}

func safeBytes(seq gts.Sequence) (p []byte, perr interface{}) {
	defer func() {
		if r := recover(); r != nil {
			perr = fmt.Sprint(r)
		}
	}()
	return seq.Bytes(), nil
}

func extract(seq gts.Sequence, loc gts.Location) (out []int, ok bool) {
	defer func() {
		if r := recover(); r != nil {
			out, ok = nil, false
		}
	}()
	if loc == nil {
		return nil, false
	}
	sub := loc.Region().Locate(seq)
	return bytesToInts(sub.Bytes()), true
}

// observe logs the raw state of a sequence through its accessors.
func observe(seq gts.Sequence, withExt bool) J {
	st := J{}
	p, perr := safeBytes(seq)
	if perr != nil {
		st["bytespanic"] = perr
		p = nil
	}
	st["res"] = bytesToInts(p)
	st["len"] = len(p)
	st["topo"] = topoOf(seq)
	ff := seq.Features()
	feats := make([]interface{}, len(ff))
	for i, f := range ff {
		fj := J{"key": f.Key, "label": labelOf(f), "loc": locToJSON(f.Loc), "props": propsToJSON(f.Props)}
		if withExt {
			ext, ok := extractSafeCopy(seq, f.Loc)
			fj["extok"] = ok
			if ok {
				fj["ext"] = ext
			} else {
				fj["ext"] = []int{}
			}
		}
		feats[i] = fj
	}
	st["feats"] = feats
	st["refs"] = []interface{}{}
	st["region"] = []int{}
	if info, ok := seq.Info().(seqio.GenBankFields); ok {
		refs := make([]interface{}, len(info.References))
		for i, r := range info.References {
			ranges, ranged := parseRefRanges(r.Info)
			refs[i] = J{"num": r.Number, "info": r.Info, "ranged": ranged, "ranges": ranges}
		}
		st["refs"] = refs
		if seg, ok := info.Region.(gts.Segment); ok {
			st["region"] = []int{seg[0], seg[1]}
		}
	}
	return st
}

// extractSafeCopy extracts on a deep copy so that defects of Locate/Slice
// (argument mutation) cannot disturb the record under observation.
func extractSafeCopy(seq gts.Sequence, loc gts.Location) ([]int, bool) {
	if loc == nil || hasNil(loc) {
		return nil, false
	}
	return extract(deepCopy(seq), loc)
}

func hasNil(loc gts.Location) bool {
	switch v := loc.(type) {
	case nil:
		return true
	case gts.Joined:
		for _, x := range v {
			if hasNil(x) {
				return true
			}
		}
	case gts.Ordered:
		for _, x := range v {
			if hasNil(x) {
				return true
			}
		}
	case gts.Complemented:
		return hasNil(v.Location)
	}
	return false
}

func copyLoc(loc gts.Location) gts.Location {
	switch v := loc.(type) {
	case gts.Joined:
		out := make(gts.Joined, len(v))
		for i, x := range v {
			out[i] = copyLoc(x)
		}
		return out
	case gts.Ordered:
		out := make(gts.Ordered, len(v))
		for i, x := range v {
			out[i] = copyLoc(x)
		}
		return out
	case gts.Complemented:
		return gts.Complemented{Location: copyLoc(v.Location)}
	}
	return loc
}

func copyFeatures(ff gts.FeatureSlice) gts.FeatureSlice {
	if ff == nil {
		return nil
	}
	out := make(gts.FeatureSlice, len(ff))
	for i, f := range ff {
		out[i] = gts.Feature{Key: f.Key, Loc: copyLoc(f.Loc), Props: f.Props.Clone()}
	}
	return out
}

// deepCopy returns a value sharing no storage with seq.
func deepCopy(seq gts.Sequence) gts.Sequence {
	p := append([]byte(nil), seq.Bytes()...)
	ff := copyFeatures(seq.Features())
	switch v := seq.(type) {
	case seqio.GenBank:
		fields := v.Fields
		fields.References = append([]seqio.Reference(nil), v.Fields.References...)
		return seqio.GenBank{Fields: fields, Table: ff, Origin: seqio.NewOrigin(p)}
	default:
		if info, ok := seq.Info().(seqio.GenBankFields); ok {
			info.References = append([]seqio.Reference(nil), info.References...)
			return seqio.GenBank{Fields: info, Table: ff, Origin: seqio.NewOrigin(p)}
		}
		return gts.New(seq.Info(), ff, p)
	}
}

type seqRunner struct {
	out    *bufio.Writer
	recs   map[string]gts.Sequence
	order  []string
	pure   bool // purity mode: arguments are passed as they are and probed afterwards
	shared bool // arguments are passed as they are (no probes)
	ext    bool
	caseID string
}

func (r *seqRunner) emit(ev J) {
	ev["case"] = r.caseID
	b, err := json.Marshal(ev)
	if err != nil {
		panic(err)
	}
	r.out.Write(b)
	r.out.WriteByte('\n')
}

func (r *seqRunner) arg(name string) gts.Sequence {
	seq, ok := r.recs[name]
	if !ok {
		return nil
	}
	if r.pure || r.shared {
		return seq
	}
	return deepCopy(seq)
}

func (r *seqRunner) apply(op J) (res gts.Sequence, perr interface{}) {
	defer func() {
		if e := recover(); e != nil {
			res, perr = nil, fmt.Sprint(e)
		}
	}()
	src := r.arg(asStr(op["src"]))
	switch asStr(op["op"]) {
	case "insert":
		return gts.Insert(src, asInt(op["i"]), r.arg(asStr(op["guest"]))), nil
	case "embed":
		return gts.Embed(src, asInt(op["i"]), r.arg(asStr(op["guest"]))), nil
	case "delete":
		return gts.Delete(src, asInt(op["i"]), asInt(op["n"])), nil
	case "erase":
		return gts.Erase(src, asInt(op["i"]), asInt(op["n"])), nil
	case "slice":
		return gts.Slice(src, asInt(op["s"]), asInt(op["e"])), nil
	case "rotate":
		return gts.Rotate(src, asInt(op["n"])), nil
	case "reverse":
		return gts.Reverse(src), nil
	case "complement":
		return gts.Complement(src), nil
	case "transcribe":
		return gts.Transcribe(src), nil
	case "concat":
		names := asList(op["srcs"])
		ss := make([]gts.Sequence, len(names))
		for i, n := range names {
			ss[i] = r.arg(asStr(n))
		}
		return gts.Concat(ss...), nil
	case "repair":
		return gts.WithFeatures(src, gts.Repair(src.Features())), nil
	case "copy":
		return gts.Copy(src), nil
	case "withfeatures":
		return gts.WithFeatures(src, src.Features()), nil
	case "withbytes":
		return gts.WithBytes(src, src.Bytes()), nil
	case "withinfo":
		return gts.WithInfo(src, src.Info()), nil
	case "withtopology":
		t := gts.Linear
		if asStr(op["topo"]) == "circular" {
			t = gts.Circular
		}
		return gts.WithTopology(src, t), nil
	case "filter":
		f, err := gts.Selector(asStr(op["sel"]))
		if err != nil {
			return nil, "selector error: " + err.Error()
		}
		return gts.WithFeatures(src, src.Features().Filter(f)), nil
	case "finsert":
		ff := makeFeatures([]interface{}{op["feat"]})
		return gts.WithFeatures(src, src.Features().Insert(ff[0])), nil
	}
	return nil, "unknown op " + asStr(op["op"])
}

// runCase runs a case with defensive copies between the calls (each call is judged on its own) and, for
// every third case, once more with the values shared between the calls, as a caller chaining operations
// would use them (case id + "#s"): a call that writes through an argument then spoils a later call.
func (r *seqRunner) runCase(c J) {
	r.runCaseMode(c, asStr(c["id"]), asBool(c["shared"]))
	if !asBool(c["pure"]) && !asBool(c["shared"]) && crc32.ChecksumIEEE([]byte(asStr(c["id"])))%3 == 0 {
		r.runCaseMode(c, asStr(c["id"])+"#s", true)
	}
}

func (r *seqRunner) runCaseMode(c J, caseID string, shared bool) {
	r.caseID = caseID
	sharedBufs = map[string][]byte{}
	sharedTables = map[string]gts.FeatureSlice{}
	r.recs = map[string]gts.Sequence{}
	r.order = nil
	r.pure = asBool(c["pure"])
	r.shared = shared
	r.ext = !asBool(c["noext"])
	r.emit(J{"ev": "case"})
	for _, x := range asList(c["recs"]) {
		m := x.(map[string]interface{})
		name := asStr(m["name"])
		if r.shared && !r.pure && asStr(m["store"]) == "" {
			// values shared between the calls live in buffers with spare capacity (as the results of
			// append or of a parser usually do)
			m2 := J{}
			for k, v := range m {
				m2[k] = v
			}
			// (a GenBank record holds them as a parsed ORIGIN, so Bytes() is the buffer itself)
			m2["store"] = "spareparsed"
			m = m2
		}
		seq := makeSeq(m)
		r.recs[name] = seq
		r.order = append(r.order, name)
		r.emit(J{"ev": "init", "name": name, "withext": r.ext, "st": observe(seq, r.ext)})
	}
	for _, x := range asList(c["ops"]) {
		op := x.(map[string]interface{})
		ev := J{"ev": "op", "withext": r.ext}
		for k, v := range op {
			ev[k] = v
		}
		name := asStr(op["op"])
		if name == "law" {
			ev["ev"] = "law"
			r.emit(ev)
			continue
		}
		if name == "rt" {
			r.roundTrip(ev, asStr(op["src"]))
			continue
		}
		missing := false
		for _, k := range []string{"src", "guest"} {
			if n, ok := op[k]; ok {
				if _, have := r.recs[asStr(n)]; !have {
					missing = true
				}
			}
		}
		for _, n := range asList(op["srcs"]) {
			if _, have := r.recs[asStr(n)]; !have {
				missing = true
			}
		}
		if missing {
			ev["ev"] = "skip"
			r.emit(ev)
			continue
		}
		res, perr := r.apply(op)
		if perr != nil {
			ev["panic"] = perr
			ev["st"] = emptyState()
			r.emit(ev)
		} else {
			dst := asStr(op["dst"])
			st, operr := observeSafe(res, r.ext)
			if operr != nil {
				ev["panic"] = operr
				ev["st"] = emptyState()
				r.emit(ev)
			} else {
				ev["panic"] = ""
				ev["st"] = st
				r.recs[dst] = res
				r.order = append(r.order, dst)
				r.emit(ev)
			}
		}
		if r.pure {
			for _, n := range r.order {
				st, operr := observeSafe(r.recs[n], false)
				pe := J{"ev": "probe", "name": n}
				if operr != nil {
					pe["panic"] = operr
					pe["st"] = emptyState()
				} else {
					pe["panic"] = ""
					pe["st"] = st
				}
				r.emit(pe)
			}
		}
	}
}

func observeSafe(seq gts.Sequence, ext bool) (st J, perr interface{}) {
	defer func() {
		if e := recover(); e != nil {
			st, perr = nil, fmt.Sprint(e)
		}
	}()
	return observe(seq, ext), nil
}

// roundTrip writes the record as GenBank, scans it back, writes it again.
func (r *seqRunner) roundTrip(ev J, name string) {
	seq, ok := r.recs[name]
	if !ok {
		ev["ev"] = "skip"
		r.emit(ev)
		return
	}
	res := gbRoundTrip(deepCopy(seq))
	for k, v := range res {
		ev[k] = v
	}
	ev["ev"] = "rt"
	r.emit(ev)
}

func seqMain(args []string) {
	in := bufio.NewReaderSize(os.Stdin, 1<<20)
	out := bufio.NewWriterSize(os.Stdout, 1<<20)
	defer out.Flush()
	r := &seqRunner{out: out}
	for {
		line, err := in.ReadBytes('\n')
		if len(line) > 1 {
			c := decodeCase(line)
			if c != nil {
				r.runCase(c)
			}
		}
		if err != nil {
			break
		}
	}
}

// decodeCase accepts either a JSON object or a CSV-quoted JSON string (the
// form TLC's CSVWrite/ToJson produces).
func decodeCase(line []byte) J {
	s := strings.TrimSpace(string(line))
	if s == "" {
		return nil
	}
	if s[0] == '"' {
		var inner string
		if err := json.Unmarshal([]byte(s), &inner); err != nil {
			fmt.Fprintf(os.Stderr, "bad case line: %v\n", err)
			os.Exit(2)
		}
		s = inner
	}
	var c J
	if err := json.Unmarshal([]byte(s), &c); err != nil {
		fmt.Fprintf(os.Stderr, "bad case json: %v: %.200s\n", err, s)
		os.Exit(2)
	}
	return c
}

func emptyState() J {
	return J{"res": []int{}, "len": 0, "topo": "na", "feats": []interface{}{}, "refs": []interface{}{}, "region": []int{}}
}

var refInfoRe = regexp.MustCompile(`^\((bases|residues) (\d+ to \d+(; \d+ to \d+)*)\)$`)

// parseRefRanges tokenises "(bases a to b; c to d)" into 0-based half-open ranges.
func parseRefRanges(info string) ([]interface{}, bool) {
	out := []interface{}{}
	m := refInfoRe.FindStringSubmatch(info)
	if m == nil {
		return out, false
	}
	for _, part := range strings.Split(m[2], "; ") {
		var a, b int
		if _, err := fmt.Sscanf(part, "%d to %d", &a, &b); err != nil {
			return []interface{}{}, false
		}
		out = append(out, []int{a - 1, b})
	}
	return out, true
}
