package main

// Driver for C01 (GenBank write-read-write closure and fidelity) and the
// GenBank part of C07: builds seqio.GenBank values from TLC-generated record
// descriptions, writes, scans, writes again and logs both sides field by field.

import (
	"bufio"
	"crypto/sha1"
	"encoding/hex"
	"encoding/json"
	"io/ioutil"
	"path/filepath"
	"fmt"
	"os"
	"strings"
	"time"

	"github.com/go-gts/gts"
	"github.com/go-gts/gts/seqio"
)

func strOr(v interface{}, d string) string {
	if s, ok := v.(string); ok {
		return s
	}
	return d
}

func gbFromJSON(m J, uniq string) seqio.GenBank {
	f := seqio.GenBankFields{
		LocusName:  strOr(m["locus"], "LOC1"),
		Molecule:   gts.Molecule(strOr(m["molecule"], "DNA")),
		Division:   strOr(m["division"], "SYN"),
		Definition: strOr(m["definition"], "def"),
		Accession:  strOr(m["accession"], "AC1"),
		Version:    strOr(m["version"], "AC1.1"),
	}
	if strOr(m["topology"], "linear") == "circular" {
		f.Topology = gts.Circular
	}
	d := asList(m["date"])
	if len(d) == 3 {
		f.Date = seqio.Date{Year: asInt(d[0]), Month: time.Month(asInt(d[1])), Day: asInt(d[2])}
	} else {
		f.Date = seqio.Date{Year: 2020, Month: 2, Day: 29}
	}
	for _, kv := range asList(m["dblink"]) {
		p := asList(kv)
		f.DBLink = append(f.DBLink, seqio.Pair{Key: asStr(p[0]), Value: asStr(p[1])})
	}
	for _, k := range asList(m["keywords"]) {
		f.Keywords = append(f.Keywords, asStr(k))
	}
	if s, ok := m["source"].(map[string]interface{}); ok {
		f.Source.Species = asStr(s["species"])
		f.Source.Name = asStr(s["name"])
		for _, t := range asList(s["taxon"]) {
			f.Source.Taxon = append(f.Source.Taxon, asStr(t))
		}
	}
	for _, rv := range asList(m["references"]) {
		r := rv.(map[string]interface{})
		ref := seqio.Reference{Number: asInt(r["number"]), Info: asStr(r["info"]), Authors: asStr(r["authors"]), Group: asStr(r["group"]),
			Title: asStr(r["title"]), Journal: asStr(r["journal"]), Comment: asStr(r["remark"])}
		if p := asStr(r["pubmed"]); p != "" {
			ref.Xref = map[string]string{"PUBMED": p}
		}
		f.References = append(f.References, ref)
	}
	for _, c := range asList(m["comments"]) {
		f.Comments = append(f.Comments, asStr(c))
	}
	for _, ev := range asList(m["extra"]) {
		p := asList(ev)
		f.Extra = append(f.Extra, seqio.GenBankExtraField(asStr(p[0]), asStr(p[1])))
	}
	if c, ok := m["contig"].(map[string]interface{}); ok {
		f.Contig = seqio.Contig{Accession: asStr(c["accession"]), Region: gts.Segment{asInt(c["h"]), asInt(c["t"])}}
	}
	if r := asList(m["region"]); len(r) == 2 {
		f.Region = gts.Segment{asInt(r[0]), asInt(r[1])}
	}
	var ff gts.FeatureSlice
	for _, fv := range asList(m["feats"]) {
		fm := fv.(map[string]interface{})
		loc := builtFromJSON(fm["loc"])
		props := gts.Props{}
		for _, q := range asList(fm["quals"]) {
			kv := asList(q)
			name := strings.ReplaceAll(asStr(kv[0]), "$", uniq)
			props.Add(name, asStr(kv[1]))
		}
		ff = append(ff, gts.Feature{Key: asStr(fm["key"]), Loc: loc, Props: props})
	}
	n := asInt(m["len"])
	p := patternResidues(n, strOr(m["alpha"], "acgt"))
	return seqio.GenBank{Fields: f, Table: ff, Origin: seqio.NewOrigin(p)}
}

func gbToJSON(seq gts.Sequence, uniq string) J {
	out := J{}
	var f seqio.GenBankFields
	switch v := seq.Info().(type) {
	case seqio.GenBankFields:
		f = v
	default:
		out["notgenbank"] = true
		return out
	}
	out["locus"] = f.LocusName
	out["molecule"] = string(f.Molecule)
	out["topology"] = f.Topology.String()
	out["division"] = f.Division
	out["date"] = []int{f.Date.Year, int(f.Date.Month), f.Date.Day}
	out["definition"] = f.Definition
	out["accession"] = f.Accession
	out["version"] = f.Version
	dbl := []interface{}{}
	for _, p := range f.DBLink {
		dbl = append(dbl, []string{p.Key, p.Value})
	}
	out["dblink"] = dbl
	kw := []interface{}{}
	for _, k := range f.Keywords {
		kw = append(kw, k)
	}
	out["keywords"] = kw
	tx := []interface{}{}
	for _, t := range f.Source.Taxon {
		tx = append(tx, t)
	}
	out["source"] = J{"species": f.Source.Species, "name": f.Source.Name, "taxon": tx}
	refs := []interface{}{}
	for _, r := range f.References {
		pm := ""
		if r.Xref != nil {
			pm = r.Xref["PUBMED"]
		}
		refs = append(refs, J{"number": r.Number, "info": r.Info, "authors": r.Authors, "group": r.Group, "title": r.Title,
			"journal": r.Journal, "pubmed": pm, "remark": r.Comment})
	}
	out["references"] = refs
	cm := []interface{}{}
	for _, c := range f.Comments {
		cm = append(cm, c)
	}
	out["comments"] = cm
	ex := []interface{}{}
	for _, e := range f.Extra {
		ex = append(ex, []string{e.Name, e.Value})
	}
	out["extra"] = ex
	out["contig"] = J{"accession": f.Contig.Accession, "h": f.Contig.Region[0], "t": f.Contig.Region[1]}
	if seg, ok := f.Region.(gts.Segment); ok {
		out["region"] = []int{seg[0], seg[1]}
	} else {
		out["region"] = []int{}
	}
	feats := []interface{}{}
	for _, ft := range seq.Features() {
		quals := []interface{}{}
		for _, it := range ft.Props.Items() {
			quals = append(quals, []string{strings.ReplaceAll(it.Key, uniq, "$"), it.Value})
		}
		feats = append(feats, J{"key": ft.Key, "loc": locToJSON(ft.Loc), "quals": quals})
	}
	out["feats"] = feats
	p, perr := safeBytes(seq)
	if perr != nil {
		out["res"] = []int{}
		out["len"] = -1
	} else if len(p) > 400 {
		// long sequences are compared by digest
		sum := sha1.Sum(p)
		out["res"] = hex.EncodeToString(sum[:])
		out["len"] = len(p)
	} else {
		out["res"] = bytesToInts(p)
		out["len"] = len(p)
	}
	return out
}

var corpusDir = "/repo/seqio/testdata"

func gbrecMain(args []string) {
	for i := 0; i+1 < len(args); i += 2 {
		if args[i] == "-data" {
			corpusDir = args[i+1]
		}
	}
	in := bufio.NewReaderSize(os.Stdin, 1<<20)
	out := bufio.NewWriterSize(os.Stdout, 1<<20)
	defer out.Flush()
	emit := func(ev J) {
		b, _ := json.Marshal(ev)
		out.Write(b)
		out.WriteByte('\n')
	}
	caseNo := 0
	for {
		line, err := in.ReadBytes('\n')
		if len(line) > 1 {
			if c := decodeCase(line); c != nil {
				caseNo++
				if _, ok := c["corpus"]; ok {
					runCorpusCase(c, emit)
				} else {
					runGbCase(c, fmt.Sprintf("u%dx%d", os.Getpid()%100000, caseNo), emit)
				}
			}
		}
		if err != nil {
			break
		}
	}
}

// teach makes the reader see qualifier `name` in the given form first
// (the registries are process-global and learn on first sight).
func teach(name, form string) {
	val := map[string]string{"quoted": "=\"v\"", "literal": "=v", "toggle": ""}[form]
	text := "LOCUS       T                          4 bp    DNA     linear   SYN 01-JAN-2000\nDEFINITION  t.\nACCESSION   T\nVERSION     T.1\nKEYWORDS    .\nSOURCE      s\n  ORGANISM  s\n            .\nFEATURES             Location/Qualifiers\n     source          1..4\n                     /" + name + val + "\nORIGIN      \n        1 acgt\n//\n"
	scanAll(text)
}

func runGbCase(c J, uniq string, emit func(J)) {
	id := asStr(c["id"])
	for _, tv := range asList(c["teach"]) {
		t := asList(tv)
		teach(strings.ReplaceAll(asStr(t[0]), "$", uniq), asStr(t[1]))
	}
	recs := asList(c["recs"])
	ev := J{"ev": "gb", "case": id, "teach": c["teach"], "wpanic": "", "rpanic": "", "rerr": "", "fixed": false,
		"written": []interface{}{}, "read": []interface{}{}, "regtypes": []interface{}{}}
	if c["teach"] == nil {
		ev["teach"] = []interface{}{}
	}
	var text strings.Builder
	written := []interface{}{}
	for _, rv := range recs {
		gb := gbFromJSON(rv.(map[string]interface{}), uniq)
		t, perr := writeGenBank(gb)
		if perr != nil {
			ev["wpanic"] = fmt.Sprint(perr)
			emit(ev)
			return
		}
		text.WriteString(t)
		written = append(written, gbToJSON(gb, uniq))
	}
	ev["written"] = written
	seqs, errs, perr := scanAll(text.String())
	if perr != nil {
		ev["rpanic"] = fmt.Sprint(perr)
		emit(ev)
		return
	}
	ev["rerr"] = errs
	read := []interface{}{}
	var text2 strings.Builder
	for _, s := range seqs {
		read = append(read, gbToJSON(s, uniq))
		t, perr := writeGenBank(s)
		if perr == nil {
			text2.WriteString(t)
		}
	}
	ev["read"] = read
	ev["fixed"] = text.String() == text2.String()
	// every sixth case: the same text handed to the scanner in two reads, cut at every offset; the re-written
	// stream must not depend on where the reader's buffer ends
	ev["splitdiff"] = -1
	gbCaseCounter++
	if t1 := text.String(); ev["fixed"] == true && errs == "" && len(t1) <= 4000 && gbCaseCounter%6 == 0 {
		for cut := 1; cut < len(t1); cut++ {
			diff := func() (d bool) {
				defer func() {
					if e := recover(); e != nil {
						d = true
					}
				}()
				sc := seqio.NewAutoScanner(newSplitReader(t1, cut))
				var b strings.Builder
				for sc.Scan() {
					t, perr := writeGenBank(sc.Value())
					if perr != nil {
						return true
					}
					b.WriteString(t)
				}
				return sc.Err() != nil || b.String() != t1
			}()
			if diff {
				ev["splitdiff"] = cut
				break
			}
		}
	}
	emit(ev)
}

var gbCaseCounter int

// roundTripEvent writes seq, scans it back, writes again and logs both sides.
func roundTripEvent(id string, step string, seq gts.Sequence, emit func(J)) {
	ev := J{"ev": "gb", "case": id, "step": step, "teach": []interface{}{}, "wpanic": "", "rpanic": "", "rerr": "", "fixed": false,
		"written": []interface{}{}, "read": []interface{}{}}
	t1, perr := writeGenBank(seq)
	if perr != nil {
		ev["wpanic"] = fmt.Sprint(perr)
		emit(ev)
		return
	}
	ev["written"] = []interface{}{gbToJSON(seq, "\x00")}
	seqs, errs, pp := scanAll(t1)
	if pp != nil {
		ev["rpanic"] = fmt.Sprint(pp)
		emit(ev)
		return
	}
	ev["rerr"] = errs
	read := []interface{}{}
	t2 := ""
	for _, s := range seqs {
		read = append(read, gbToJSON(s, "\x00"))
		if t, perr := writeGenBank(s); perr == nil {
			t2 += t
		}
	}
	ev["read"] = read
	ev["fixed"] = t1 == t2
	emit(ev)
}

// featuresInside: every feature location lies inside the residues (a CONTIG-only record that received a few
// residues keeps features that point far outside them).
func featuresInside(seq gts.Sequence) bool {
	n := gts.Len(seq)
	for _, f := range seq.Features() {
		if f.Loc == nil {
			return false
		}
		for _, s := range regionSegments(f.Loc.Region()) {
			if s[0] < 0 || s[1] < 0 || s[0] > n || s[1] > n {
				return false
			}
		}
	}
	return true
}

func regionSegments(r gts.Region) []gts.Segment {
	switch v := r.(type) {
	case gts.Segment:
		return []gts.Segment{v}
	case gts.Regions:
		var out []gts.Segment
		for _, x := range v {
			out = append(out, regionSegments(x)...)
		}
		return out
	}
	return nil
}

// runCorpusCase applies a TLC-generated pipeline (arguments in eighths of the
// current length) to a corpus record and round-trips after every step.
func runCorpusCase(c J, emit func(J)) {
	id := asStr(c["id"])
	data, err := ioutil.ReadFile(filepath.Join(corpusDir, asStr(c["corpus"])))
	if err != nil {
		fmt.Fprintln(os.Stderr, "missing corpus file:", err)
		os.Exit(2)
	}
	seqs, errs, pp := scanAll(string(data))
	if pp != nil || errs != "" || len(seqs) == 0 {
		emit(J{"ev": "gb", "case": id, "step": "load", "teach": []interface{}{}, "wpanic": "", "rpanic": fmt.Sprint(pp), "rerr": errs, "fixed": false,
			"written": []interface{}{}, "read": []interface{}{}})
		return
	}
	cur := seqs[0]
	roundTripEvent(id, "load", cur, emit)
	for k, ov := range asList(c["ops"]) {
		o := asList(ov)
		name, a, b := asStr(o[0]), asInt(o[1]), asInt(o[2])
		step := fmt.Sprintf("%d:%s(%d,%d)", k+1, name, a, b)
		ok := func() (ok bool) {
			defer func() {
				if e := recover(); e != nil {
					// an operation that panics wrote no record: this is a matter for the property of that
					// operation, not for C01 - unless the record it was given was well-formed (every feature
					// inside the residues), in which case the pipeline lost a writable record
					w := "op panic: " + fmt.Sprint(e)
					if !featuresInside(cur) {
						w = ""
					}
					emit(J{"ev": "gb", "case": id, "step": step, "teach": []interface{}{}, "wpanic": w, "rpanic": "", "rerr": "", "fixed": true,
						"written": []interface{}{}, "read": []interface{}{}, "oppanic": fmt.Sprint(e)})
					ok = false
				}
			}()
			L := gts.Len(cur)
			i := L * a / 8
			j := L * b / 8
			guest := gts.New(nil, gts.FeatureSlice{{Key: "misc_feature", Loc: gts.Range(0, 6), Props: gts.Props{{"note", "guest"}}}}, []byte("ggatcc"))
			switch name {
			case "insert":
				cur = gts.Insert(cur, i, guest)
			case "embed":
				cur = gts.Embed(cur, i, guest)
			case "delete":
				if i > j {
					i, j = j, i
				}
				cur = gts.Delete(cur, i, j-i)
			case "erase":
				if i > j {
					i, j = j, i
				}
				cur = gts.Erase(cur, i, j-i)
			case "slice":
				cur = gts.Slice(cur, i, j)
			case "rotate":
				if L > 0 {
					cur = gts.Rotate(cur, i-j)
				}
			case "reverse":
				cur = gts.Reverse(cur)
			case "complement":
				cur = gts.Complement(cur)
			case "concat":
				cur = gts.Concat(cur, gts.Slice(cur, i/2, L-(L-j)/2))
			case "clear":
				cur = gts.WithFeatures(cur, cur.Features().Filter(gts.Key("source")))
			case "repair":
				cur = gts.WithFeatures(cur, gts.Repair(cur.Features()))
			}
			return true
		}()
		if !ok {
			return
		}
		roundTripEvent(id, step, cur, emit)
	}
}
