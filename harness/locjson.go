package main

import (
	"encoding/json"
	"fmt"

	"github.com/go-gts/gts"
)

// J is a generic JSON object.
type J = map[string]interface{}

func asInt(v interface{}) int {
	switch x := v.(type) {
	case float64:
		return int(x)
	case int:
		return x
	case json.Number:
		n, _ := x.Int64()
		return int(n)
	case nil:
		return 0
	}
	panic(fmt.Sprintf("not an int: %v (%T)", v, v))
}

func asBool(v interface{}) bool {
	b, _ := v.(bool)
	return b
}

func asStr(v interface{}) string {
	s, _ := v.(string)
	return s
}

func asList(v interface{}) []interface{} {
	l, _ := v.([]interface{})
	return l
}

// locFromJSON builds the *raw* Go value for a term (no Join/Order reduction).
func locFromJSON(v interface{}) gts.Location {
	m := v.(map[string]interface{})
	switch asStr(m["k"]) {
	case "pt":
		return gts.Point(asInt(m["p"]))
	case "bw":
		return gts.Between(asInt(m["p"]))
	case "rg":
		return gts.Ranged{Start: asInt(m["s"]), End: asInt(m["e"]),
			Partial: gts.Partial{Partial5: asBool(m["p5"]), Partial3: asBool(m["p3"])}}
	case "am":
		return gts.Ambiguous{Start: asInt(m["s"]), End: asInt(m["e"])}
	case "jn":
		xs := asList(m["xs"])
		out := make(gts.Joined, len(xs))
		for i, x := range xs {
			out[i] = locFromJSON(x)
		}
		return out
	case "od":
		xs := asList(m["xs"])
		out := make(gts.Ordered, len(xs))
		for i, x := range xs {
			out[i] = locFromJSON(x)
		}
		return out
	case "cp":
		return gts.Complemented{Location: locFromJSON(m["x"])}
	case "nil":
		return nil
	}
	panic(fmt.Sprintf("bad location json: %v", v))
}

// builtFromJSON builds the value through the public constructors
// (Join / Order / Complement), bottom-up.
func builtFromJSON(v interface{}) gts.Location {
	m := v.(map[string]interface{})
	switch asStr(m["k"]) {
	case "jn":
		xs := asList(m["xs"])
		out := make([]gts.Location, len(xs))
		for i, x := range xs {
			out[i] = builtFromJSON(x)
		}
		return gts.Join(out...)
	case "od":
		xs := asList(m["xs"])
		out := make([]gts.Location, len(xs))
		for i, x := range xs {
			out[i] = builtFromJSON(x)
		}
		return gts.Order(out...)
	case "cp":
		return builtFromJSON(m["x"]).Complement()
	}
	return locFromJSON(v)
}

// locToJSON logs the raw structure of a location (its tree, not its meaning).
func locToJSON(loc gts.Location) J {
	switch v := loc.(type) {
	case nil:
		return J{"k": "nil"}
	case gts.Point:
		return J{"k": "pt", "p": int(v)}
	case gts.Between:
		return J{"k": "bw", "p": int(v)}
	case gts.Ranged:
		return J{"k": "rg", "s": v.Start, "e": v.End, "p5": v.Partial.Partial5, "p3": v.Partial.Partial3}
	case gts.Ambiguous:
		return J{"k": "am", "s": v.Start, "e": v.End}
	case gts.Joined:
		xs := make([]interface{}, len(v))
		for i, x := range v {
			xs[i] = locToJSON(x)
		}
		return J{"k": "jn", "xs": xs}
	case gts.Ordered:
		xs := make([]interface{}, len(v))
		for i, x := range v {
			xs[i] = locToJSON(x)
		}
		return J{"k": "od", "xs": xs}
	case gts.Complemented:
		return J{"k": "cp", "x": locToJSON(v.Location)}
	}
	return J{"k": "unknown", "go": fmt.Sprintf("%T", loc)}
}

func bytesToInts(p []byte) []int {
	out := make([]int, len(p))
	for i, c := range p {
		out[i] = int(c)
	}
	return out
}

func regionToJSON(r gts.Region) interface{} {
	switch v := r.(type) {
	case gts.Segment:
		return J{"k": "seg", "h": v[0], "t": v[1]}
	case gts.Regions:
		xs := make([]interface{}, len(v))
		for i, x := range v {
			xs[i] = regionToJSON(x)
		}
		return J{"k": "regs", "xs": xs}
	case nil:
		return J{"k": "nil"}
	}
	return J{"k": "unknown"}
}

func regionFromJSON(v interface{}) gts.Region {
	m := v.(map[string]interface{})
	switch asStr(m["k"]) {
	case "seg":
		return gts.Segment{asInt(m["h"]), asInt(m["t"])}
	case "regs":
		xs := asList(m["xs"])
		out := make(gts.Regions, len(xs))
		for i, x := range xs {
			out[i] = regionFromJSON(x)
		}
		return out
	}
	panic(fmt.Sprintf("bad region json: %v", v))
}
