package main

// Driver for C07: scans mutated sequence files and interprets strings with
// the small parsers, under recover and a watchdog; logs the outcome only.

import (
	"bufio"
	"encoding/json"
	"fmt"
	"io"
	"os"
	"regexp"
	"strconv"
	"strings"
	"time"

	"github.com/go-gts/gts"
	"github.com/go-gts/gts/seqio"
	"github.com/go-pars/pars"
)

type scanOutcome struct {
	Outcome  string // values | error | panic | hang
	Detail   string
	Lens     []int // residues per returned record
	Declared []int // length reported through gts.Len (the LOCUS / block length)
}

func scanWithWatchdog(text string, limit time.Duration) scanOutcome {
	return scanSplitWithWatchdog(text, -1, limit)
}

// split >= 0: the text reaches the scanner in two reads, [0,split) and the rest
func scanSplitWithWatchdog(text string, split int, limit time.Duration) scanOutcome {
	ch := make(chan scanOutcome, 1)
	go func() {
		out := scanOutcome{Outcome: "values"}
		defer func() {
			if e := recover(); e != nil {
				s := fmt.Sprint(e)
				if len(s) > 120 {
					s = s[:120]
				}
				ch <- scanOutcome{Outcome: "panic", Detail: s}
			}
		}()
		var rd io.Reader = strings.NewReader(text)
		if split >= 0 {
			rd = newSplitReader(text, split)
		}
		sc := seqio.NewAutoScanner(rd)
		for sc.Scan() {
			v := sc.Value()
			out.Lens = append(out.Lens, len(v.Bytes()))
			out.Declared = append(out.Declared, gts.Len(v))
		}
		if err := sc.Err(); err != nil {
			out.Outcome = "error"
			d := err.Error()
			if len(d) > 120 {
				d = d[:120]
			}
			out.Detail = d
		}
		ch <- out
	}()
	select {
	case o := <-ch:
		return o
	case <-time.After(limit):
		return scanOutcome{Outcome: "hang"}
	}
}

var locusLen = regexp.MustCompile(`(?m)^LOCUS +\S+ +(\d+) (?:bp|aa)`)

func declaredLengths(text string) []int {
	out := []int{}
	for _, m := range locusLen.FindAllStringSubmatch(text, -1) {
		n, _ := strconv.Atoi(m[1])
		out = append(out, n)
	}
	return out
}

func callWithWatchdog(f func() (bool, string)) (outcome string, detail string) {
	type res struct {
		o, d string
	}
	ch := make(chan res, 1)
	go func() {
		defer func() {
			if e := recover(); e != nil {
				s := fmt.Sprint(e)
				if len(s) > 120 {
					s = s[:120]
				}
				ch <- res{"panic", s}
			}
		}()
		ok, d := f()
		if ok {
			ch <- res{"values", d}
		} else {
			ch <- res{"error", d}
		}
	}()
	select {
	case r := <-ch:
		return r.o, r.d
	case <-time.After(10 * time.Second):
		return "hang", ""
	}
}

func parseMain(args []string) {
	in := bufio.NewReaderSize(os.Stdin, 1<<20)
	out := bufio.NewWriterSize(os.Stdout, 1<<20)
	defer out.Flush()
	emit := func(ev J) {
		b, _ := json.Marshal(ev)
		out.Write(b)
		out.WriteByte('\n')
	}
	for {
		line, err := in.ReadBytes('\n')
		if len(line) > 1 {
			if c := decodeCase(line); c != nil {
				switch asStr(c["fam"]) {
				case "mut":
					runMutCase(c, emit)
				case "grammar":
					runGrammarCase(c, emit)
				}
			}
		}
		if err != nil {
			break
		}
	}
}

func emitScan(emit func(J), c J, variant string, text string, crlf bool) {
	emitScanCol(emit, c, variant, text, crlf, -1)
}

// col: for a truncation, the column of the cut inside its line (-1 otherwise)
func emitScanCol(emit func(J), c J, variant string, text string, crlf bool, col int) {
	emitScanSplit(emit, c, variant, text, crlf, col, -1)
}

func emitScanSplit(emit func(J), c J, variant string, text string, crlf bool, col int, split int) {
	if crlf {
		text = strings.ReplaceAll(text, "\n", "\r\n")
	}
	o := scanSplitWithWatchdog(text, split, 10*time.Second)
	lens, decl := o.Lens, o.Declared
	if lens == nil {
		lens = []int{}
	}
	if decl == nil {
		decl = []int{}
	}
	emit(J{"ev": "scan", "case": c["id"], "seed": c["seed"], "muts": c["muts"], "byteop": c["byteop"], "variant": variant, "crlf": crlf, "col": col,
		"outcome": o.Outcome, "detail": o.Detail, "lens": lens, "reported": decl, "declared": declaredLengths(text)})
}

func runMutCase(c J, emit func(J)) {
	lines := strList(c["lines"])
	text := strings.Join(lines, "\n") + "\n"
	bop := c["byteop"].(map[string]interface{})
	// byte offset range of line i (1-based)
	start := func(i int) int {
		n := 0
		for k := 0; k < i-1 && k < len(lines); k++ {
			n += len(lines[k]) + 1
		}
		return n
	}
	switch asStr(bop["k"]) {
	case "none":
		emitScan(emit, c, "whole", text, false)
		emitScan(emit, c, "whole", text, true)
	case "trunc":
		i := asInt(bop["i"])
		lo := start(i)
		hi := lo + len(lines[i-1]) + 1
		for cut := lo; cut < hi && cut < len(text); cut++ {
			emitScanCol(emit, c, fmt.Sprintf("trunc@%d", cut), text[:cut], false, cut-lo)
		}
	case "split":
		// the (mutated) text reaches the scanner in two reads, cut at every offset: the parser's buffer
		// ends there until it asks for more; the outcome must not depend on it
		for k := 1; k < len(text); k++ {
			emitScanSplit(emit, c, fmt.Sprintf("split@%d", k), text, false, -1, k)
		}
		crlf := strings.ReplaceAll(text, "\n", "\r\n")
		for k := 1; k < len(crlf); k += 3 {
			emitScanSplit(emit, c, fmt.Sprintf("splitcr@%d", k), crlf, false, -1, k)
		}
	case "pad":
		// a COMMENT continuation line of every length after line i: the rest of the record takes every
		// offset modulo the reader's buffer size
		i := asInt(bop["i"])
		if i > len(lines) {
			i = len(lines)
		}
		head := strings.Join(lines[:i], "\n") + "\n"
		tail := strings.Join(lines[i:], "\n") + "\n"
		for m := 0; m <= 4300; m++ {
			padded := head + "            " + strings.Repeat("x", m) + "\n" + tail
			emitScan(emit, c, fmt.Sprintf("pad+%d", m), padded, false)
			if m%7 == 0 {
				emitScan(emit, c, fmt.Sprintf("pad+%d", m), padded, true)
			}
		}
	case "flip":
		i := asInt(bop["i"])
		lo := start(i)
		hi := lo + len(lines[i-1]) + 1
		for off := lo; off < hi && off < len(text); off++ {
			for _, m := range []byte{0x01, 0x20, 0x80} {
				b := []byte(text)
				b[off] ^= m
				emitScan(emit, c, fmt.Sprintf("flip@%d^%02x", off, m), string(b), false)
			}
		}
	}
}

func runGrammarCase(c J, emit func(J)) {
	for _, iv := range asList(c["items"]) {
		m := iv.(map[string]interface{})
		g, s := asStr(m["g"]), asStr(m["s"])
		var f func() (bool, string)
		switch g {
		case "locator":
			f = func() (bool, string) {
				loc, err := gts.AsLocator(s)
				if err != nil {
					return false, ""
				}
				// a locator must also be applicable without crashing
				seq := gts.New(nil, gts.FeatureSlice{{Key: "gene", Loc: gts.Range(2, 6), Props: gts.Props{{"gene", "x"}}}}, []byte("acgtacgtac"))
				rr := loc(seq)
				return true, fmt.Sprint(len(rr))
			}
		case "modifier":
			f = func() (bool, string) { _, err := gts.AsModifier(s); return err == nil, "" }
		case "selector":
			f = func() (bool, string) {
				flt, err := gts.Selector(s)
				if err != nil {
					return false, ""
				}
				flt(gts.Feature{Key: "gene", Loc: gts.Range(2, 6), Props: gts.Props{{"gene", "a[(*"}}})
				return true, ""
			}
		case "date":
			f = func() (bool, string) { d, err := seqio.AsDate(s); return err == nil, fmt.Sprintf("%d-%d-%d", d.Year, int(d.Month), d.Day) }
		case "molecule":
			f = func() (bool, string) { _, err := gts.AsMolecule(s); return err == nil, "" }
		case "topology":
			f = func() (bool, string) { _, err := gts.AsTopology(s); return err == nil, "" }
		case "gbtext-err", "gbtext-any":
			// a whole (small) record text: scanned like a file
			o := scanWithWatchdog(s, 10*time.Second)
			emit(J{"ev": "str", "case": c["id"], "g": g, "s": s, "outcome": o.Outcome, "detail": o.Detail})
			continue
		case "location":
			f = func() (bool, string) {
				loc, err := gts.AsLocation(s)
				if err != nil {
					return false, ""
				}
				// an accepted location must also be usable without crashing
				_ = loc.String()
				_ = loc.Len()
				_ = loc.Region()
				_ = loc.Complement().String()
				return true, ""
			}
		case "ftable":
			f = func() (bool, string) {
				res, err := seqio.INSDCTableParser("").Parse(pars.FromString(s))
				if err != nil {
					return false, ""
				}
				ff, _ := res.Value.([]gts.Feature)
				for _, x := range ff {
					_ = x.Loc.String()
				}
				_ = seqio.INSDCFormatter{Table: ff, Prefix: "     ", Depth: 21}.String()
				return true, fmt.Sprint(len(ff))
			}
		default:
			continue
		}
		o, d := callWithWatchdog(f)
		emit(J{"ev": "str", "case": c["id"], "g": g, "s": s, "outcome": o, "detail": d})
	}
}
