package main

// Driver for Props.tla: replays an operation history on real gts.Props
// values (the original and, after "clone", its copy) and logs the rows of
// both handles and the result of every observer after each operation.

import (
	"bufio"
	"encoding/json"
	"fmt"
	"os"

	"github.com/go-gts/gts"
)

func propsRows(p gts.Props) []interface{} {
	out := make([]interface{}, len(p))
	for i, row := range p {
		r := make([]interface{}, len(row))
		for j, s := range row {
			r[j] = s
		}
		out[i] = r
	}
	return out
}

func strs(ss []string) []interface{} {
	out := make([]interface{}, len(ss))
	for i, s := range ss {
		out[i] = s
	}
	return out
}

func propsObs(p gts.Props, keys []string) J {
	items := []interface{}{}
	for _, it := range p.Items() {
		items = append(items, []interface{}{it.Key, it.Value})
	}
	probes := []interface{}{}
	for _, k := range keys {
		probes = append(probes, J{"k": k, "index": p.Index(k), "has": p.Has(k), "get": strs(p.Get(k))})
	}
	return J{"rows": propsRows(p), "keys": strs(p.Keys()), "items": items, "probes": probes}
}

func propsMain(args []string) {
	in := bufio.NewReaderSize(os.Stdin, 1<<20)
	out := bufio.NewWriterSize(os.Stdout, 1<<20)
	defer out.Flush()
	emit := func(ev J) {
		b, _ := json.Marshal(ev)
		out.Write(b)
		out.WriteByte('\n')
	}
	probeKeys := []string{"a", "b", "zz"}
	for {
		line, err := in.ReadBytes('\n')
		if len(line) > 1 {
			if c := decodeCase(line); c != nil {
				id := asStr(c["id"])
				emit(J{"ev": "case", "case": id})
				p := gts.Props{}
				var cl gts.Props
				haveClone := false
				for _, ov := range asList(c["ops"]) {
					o := ov.(map[string]interface{})
					ev := J{"ev": "op", "case": id, "o": o, "panic": "", "p": propsObs(gts.Props{}, probeKeys), "c": propsObs(gts.Props{}, probeKeys)}
					func() {
						defer func() {
							if e := recover(); e != nil {
								ev["panic"] = fmt.Sprint(e)
							}
						}()
						tgt := &p
						if asStr(o["h"]) == "c" {
							tgt = &cl
						}
						vs := strList(o["vs"])
						switch asStr(o["op"]) {
						case "set":
							tgt.Set(asStr(o["k"]), vs...)
						case "add":
							tgt.Add(asStr(o["k"]), vs...)
						case "del":
							tgt.Del(asStr(o["k"]))
						case "clone":
							cl = p.Clone()
							haveClone = true
						}
						ev["p"] = propsObs(p, probeKeys)
						if haveClone {
							ev["c"] = propsObs(cl, probeKeys)
						}
					}()
					emit(ev)
				}
			}
		}
		if err != nil {
			break
		}
	}
}
