package main

// Driver for C19: LocationLess, selectors, filter combinators, sorted insertion.

import (
	"bufio"
	"encoding/json"
	"fmt"
	"os"

	"github.com/go-gts/gts"
)

func filterFromJSON(v interface{}) (gts.Filter, error) {
	m := v.(map[string]interface{})
	switch asStr(m["f"]) {
	case "true":
		return gts.TrueFilter, nil
	case "false":
		return gts.FalseFilter, nil
	case "and", "or":
		var fs []gts.Filter
		for _, x := range asList(m["xs"]) {
			f, err := filterFromJSON(x)
			if err != nil {
				return nil, err
			}
			fs = append(fs, f)
		}
		if asStr(m["f"]) == "and" {
			return gts.And(fs...), nil
		}
		return gts.Or(fs...), nil
	case "not":
		f, err := filterFromJSON(m["x"])
		if err != nil {
			return nil, err
		}
		return gts.Not(f), nil
	case "key":
		return gts.Key(asStr(m["key"])), nil
	case "sel":
		return gts.Selector(asStr(m["s"]))
	case "within":
		return gts.Within(asInt(m["l"]), asInt(m["u"])), nil
	case "overlap":
		return gts.Overlap(asInt(m["l"]), asInt(m["u"])), nil
	case "fwd":
		return gts.ForwardStrand, nil
	case "rev":
		return gts.ReverseStrand, nil
	}
	return nil, fmt.Errorf("bad filter json")
}

func featMain(args []string) {
	in := bufio.NewReaderSize(os.Stdin, 1<<20)
	out := bufio.NewWriterSize(os.Stdout, 1<<20)
	defer out.Flush()
	emit := func(ev J) {
		b, _ := json.Marshal(ev)
		out.Write(b)
		out.WriteByte('\n')
	}
	for {
		line, err := in.ReadBytes('\n')
		if len(line) > 1 {
			if c := decodeCase(line); c != nil {
				id := asStr(c["id"])
				switch asStr(c["fam"]) {
				case "less":
					for _, pv := range asList(c["pairs"]) {
						p := asList(pv)
						ev := J{"ev": "less", "case": id, "a": p[0], "b": p[1], "panic": "", "out": false}
						func() {
							defer func() {
								if e := recover(); e != nil {
									ev["panic"] = fmt.Sprint(e)
								}
							}()
							ev["out"] = gts.LocationLess(locFromJSON(p[0]), locFromJSON(p[1]))
						}()
						emit(ev)
					}
				case "insert":
					for _, sv := range asList(c["seqs"]) {
						ev := J{"ev": "insert", "case": id, "ins": sv, "panic": "", "out": []interface{}{}, "stale": []interface{}{}}
						func() {
							defer func() {
								if e := recover(); e != nil {
									ev["panic"] = fmt.Sprint(e)
								}
							}()
							var ff gts.FeatureSlice
							// every intermediate table is kept and read again at the end: Insert returns a new
							// table, the one it was called on must still read as it did (also after the last
							// feature has been inserted into each of them once more)
							feats := makeFeatures(asList(sv))
							render := func(t gts.FeatureSlice) string {
								s := ""
								for _, f := range t {
									s += f.Key + " " + f.Loc.String() + "|"
								}
								return s
							}
							var kept []gts.FeatureSlice
							var keptText []string
							for _, f := range feats {
								kept = append(kept, ff)
								keptText = append(keptText, render(ff))
								ff = ff.Insert(f)
							}
							final := render(ff)
							if len(feats) > 0 {
								for _, t := range kept {
									_ = t.Insert(feats[len(feats)-1])
								}
								// the final table too (it is the one most likely to have spare capacity), with the
								// first and with the last feature
								_ = ff.Insert(feats[0])
								_ = ff.Insert(feats[len(feats)-1])
							}
							stale := []interface{}{}
							for k, t := range kept {
								if render(t) != keptText[k] {
									stale = append(stale, k)
								}
							}
							if render(ff) != final {
								stale = append(stale, len(kept))
							}
							ev["stale"] = stale
							res := make([]interface{}, len(ff))
							for i, f := range ff {
								res[i] = J{"key": f.Key, "loc": locToJSON(f.Loc), "label": labelOf(f)}
							}
							ev["out"] = res
						}()
						emit(ev)
					}
				case "select":
					emit(J{"ev": "table", "case": id, "table": c["table"]})
					ff := makeFeatures(asList(c["table"]))
					for _, fv := range asList(c["filters"]) {
						ev := J{"ev": "filter", "case": id, "flt": fv, "panic": "", "err": "", "out": []interface{}{}, "intact": true}
						func() {
							defer func() {
								if e := recover(); e != nil {
									ev["panic"] = fmt.Sprint(e)
								}
							}()
							flt, err := filterFromJSON(fv)
							if err != nil {
								ev["err"] = err.Error()
								return
							}
							res := ff.Filter(flt)
							labels := make([]interface{}, len(res))
							intact := true
							for i, f := range res {
								labels[i] = labelOf(f)
								// returned features are the table's own, unaltered
								found := false
								for _, g := range ff {
									if labelOf(g) == labelOf(f) {
										found = true
										if g.Key != f.Key || fmt.Sprint(locToJSON(g.Loc)) != fmt.Sprint(locToJSON(f.Loc)) || fmt.Sprint(g.Props) != fmt.Sprint(f.Props) {
											intact = false
										}
									}
								}
								if !found {
									intact = false
								}
							}
							ev["out"] = labels
							ev["intact"] = intact
						}()
						emit(ev)
					}
				}
			}
		}
		if err != nil {
			break
		}
	}
}
