//go:build !verif
// +build !verif

package main

import (
	"fmt"
	"os"
)

func cacheMain(args []string) {
	fmt.Fprintln(os.Stderr, "the cache driver needs the harness to be built with -tags verif")
	os.Exit(2)
}
