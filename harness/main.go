package main

import (
	"fmt"
	"os"
)

func main() {
	if len(os.Args) < 2 {
		fmt.Fprintln(os.Stderr, "usage: harness <driver> [args]")
		os.Exit(2)
	}
	switch os.Args[1] {
	case "seq":
		seqMain(os.Args[2:])
	case "loctext":
		locTextMain(os.Args[2:])
	case "region":
		regionMain(os.Args[2:])
	case "feat":
		featMain(os.Args[2:])
	case "alpha":
		alphaMain(os.Args[2:])
	case "textio":
		textioMain(os.Args[2:])
	case "cache":
		cacheMain(os.Args[2:])
	case "cli":
		cliMain(os.Args[2:])
	case "gbrec":
		gbrecMain(os.Args[2:])
	case "parse":
		parseMain(os.Args[2:])
	case "props":
		propsMain(os.Args[2:])
	default:
		fmt.Fprintf(os.Stderr, "unknown driver %q\n", os.Args[1])
		os.Exit(2)
	}
}
