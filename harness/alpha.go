package main

// Driver for C18: complement / transcribe tables, Match matrix, Search / Match scans.

import (
	"bufio"
	"encoding/json"
	"fmt"
	"os"

	"github.com/go-gts/gts"
)

func intsToBytes(v interface{}) []byte {
	l := asList(v)
	p := make([]byte, len(l))
	for i, x := range l {
		p[i] = byte(asInt(x))
	}
	return p
}

func segsPairs(ss []gts.Segment) []interface{} {
	out := make([]interface{}, len(ss))
	for i, s := range ss {
		out[i] = []int{s[0], s[1]}
	}
	return out
}

func alphaMain(args []string) {
	in := bufio.NewReaderSize(os.Stdin, 1<<20)
	out := bufio.NewWriterSize(os.Stdout, 1<<20)
	defer out.Flush()
	emit := func(ev J) {
		b, _ := json.Marshal(ev)
		out.Write(b)
		out.WriteByte('\n')
	}
	sbuf, qbuf := make([]byte, 256), make([]byte, 256)
	for {
		line, err := in.ReadBytes('\n')
		if len(line) > 1 {
			if c := decodeCase(line); c != nil {
				id := asStr(c["id"])
				for _, bv := range asList(c["bytes"]) {
					b := byte(asInt(bv))
					seq := gts.New(nil, nil, []byte{b, b})
					cp := gts.Complement(seq).Bytes()
					tr := gts.Transcribe(seq).Bytes()
					emit(J{"ev": "byte", "case": id, "c": int(b), "comp": bytesToInts(cp), "trans": bytesToInts(tr)})
				}
				for _, pv := range asList(c["pairs"]) {
					p := asList(pv)
					q, s := byte(asInt(p[0])), byte(asInt(p[1]))
					ev := J{"ev": "pair", "case": id, "q": int(q), "s": int(s), "panic": "", "hit": false}
					func() {
						defer func() {
							if e := recover(); e != nil {
								ev["panic"] = fmt.Sprint(e)
							}
						}()
						hits := gts.Match(gts.New(nil, nil, []byte{s}), gts.New(nil, nil, []byte{q}))
						ev["hit"] = len(hits) == 1 && hits[0] == gts.Segment{0, 1}
					}()
					emit(ev)
				}
				for _, iv := range asList(c["items"]) {
					m := iv.(map[string]interface{})
					s, q := intsToBytes(m["s"]), intsToBytes(m["q"])
					ev := J{"ev": "scan", "case": id, "s": m["s"], "q": m["q"], "spanic": "", "mpanic": "",
						"search": []interface{}{}, "match": []interface{}{}}
					func() {
						defer func() {
							if e := recover(); e != nil {
								ev["spanic"] = fmt.Sprint(e)
							}
						}()
						var again []interface{}
						reused := len(s) <= len(sbuf) && len(q) <= len(qbuf)
						if reused {
							s2, q2 := sbuf[:len(s)], qbuf[:len(q)]
							copy(s2, s)
							copy(q2, q)
							again = segsPairs(gts.Search(gts.New(nil, nil, s2), gts.New(nil, nil, q2)))
						}
						ev["search"] = segsPairs(gts.Search(gts.New(nil, nil, s), gts.New(nil, nil, q)))
						if reused && fmt.Sprint(again) != fmt.Sprint(ev["search"]) {
							ev["search"] = again
						}
					}()
					func() {
						defer func() {
							if e := recover(); e != nil {
								ev["mpanic"] = fmt.Sprint(e)
							}
						}()
						var again []interface{}
						reused := len(s) <= len(sbuf) && len(q) <= len(qbuf)
						if reused {
							s2, q2 := sbuf[:len(s)], qbuf[:len(q)]
							copy(s2, s)
							copy(q2, q)
							again = segsPairs(gts.Match(gts.New(nil, nil, s2), gts.New(nil, nil, q2)))
						}
						ev["match"] = segsPairs(gts.Match(gts.New(nil, nil, s), gts.New(nil, nil, q)))
						if reused && fmt.Sprint(again) != fmt.Sprint(ev["match"]) {
							ev["match"] = again
						}
					}()
					emit(ev)
				}
			}
		}
		if err != nil {
			break
		}
	}
}
