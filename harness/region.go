package main

// Driver for C08 (Resize, modifiers, locators) and C09 (Minimize / Invert).

import (
	"bufio"
	"encoding/json"
	"fmt"
	"os"

	"github.com/go-gts/gts"
)

func modFromJSON(v interface{}) gts.Modifier {
	m := v.(map[string]interface{})
	switch asStr(m["k"]) {
	case "head":
		return gts.Head(asInt(m["p"]))
	case "tail":
		return gts.Tail(asInt(m["p"]))
	case "hh":
		return gts.HeadHead{asInt(m["p"]), asInt(m["q"])}
	case "ht":
		return gts.HeadTail{asInt(m["p"]), asInt(m["q"])}
	case "tt":
		return gts.TailTail{asInt(m["p"]), asInt(m["q"])}
	}
	panic("bad modifier json")
}

func modToJSON(m gts.Modifier) J {
	switch v := m.(type) {
	case gts.Head:
		return J{"k": "head", "p": int(v), "q": 0}
	case gts.Tail:
		return J{"k": "tail", "p": int(v), "q": 0}
	case gts.HeadHead:
		return J{"k": "hh", "p": v[0], "q": v[1]}
	case gts.HeadTail:
		return J{"k": "ht", "p": v[0], "q": v[1]}
	case gts.TailTail:
		return J{"k": "tt", "p": v[0], "q": v[1]}
	}
	return J{"k": "none", "p": 0, "q": 0}
}

func regionInRange(r gts.Region, L int) bool {
	switch v := r.(type) {
	case gts.Segment:
		return v[0] >= 0 && v[0] <= L && v[1] >= 0 && v[1] <= L
	case gts.Regions:
		for _, x := range v {
			if !regionInRange(x, L) {
				return false
			}
		}
		return true
	}
	return false
}

func regionMain(args []string) {
	in := bufio.NewReaderSize(os.Stdin, 1<<20)
	out := bufio.NewWriterSize(os.Stdout, 1<<20)
	defer out.Flush()
	emit := func(ev J) {
		b, _ := json.Marshal(ev)
		out.Write(b)
		out.WriteByte('\n')
	}
	for {
		line, err := in.ReadBytes('\n')
		if len(line) > 1 {
			if c := decodeCase(line); c != nil {
				switch asStr(c["fam"]) {
				case "resize":
					runResize(c, emit)
				case "minimize":
					runMinimize(c, emit)
				case "locator":
					runLocator(c, emit)
				}
			}
		}
		if err != nil {
			break
		}
	}
}

func runResize(c J, emit func(J)) {
	id := asStr(c["id"])
	L := asInt(c["L"])
	p := make([]byte, L)
	for i := range p {
		p[i] = uniqByte(0, i)
	}
	seq := gts.New(nil, nil, p)
	for _, mv := range asList(c["mods"]) {
		ev := J{"ev": "resize", "case": id, "region": c["region"], "mod": mv, "L": L, "res": bytesToInts(p),
			"panic": "", "out": J{"k": "nil"}, "mstr": "", "mback": J{"k": "none", "p": 0, "q": 0}, "merr": "",
			"extok": false, "ext": []int{}}
		func() {
			defer func() {
				if e := recover(); e != nil {
					ev["panic"] = fmt.Sprint(e)
				}
			}()
			r := regionFromJSON(c["region"])
			m := modFromJSON(mv)
			ev["mstr"] = m.String()
			if m2, err := gts.AsModifier(m.String()); err != nil {
				ev["merr"] = err.Error()
			} else {
				ev["mback"] = modToJSON(m2)
			}
			res := r.Resize(m)
			ev["out"] = regionToJSON(res)
			if regionInRange(res, L) {
				sub := res.Locate(gts.New(nil, nil, append([]byte(nil), p...)))
				ev["ext"] = bytesToInts(sub.Bytes())
				ev["extok"] = true
			}
		}()
		_ = seq
		emit(ev)
	}
}

func segsToJSON(ss []gts.Segment) []interface{} {
	out := make([]interface{}, len(ss))
	for i, s := range ss {
		out[i] = regionToJSON(s)
	}
	return out
}

func regionsToJSON(rr []gts.Region) []interface{} {
	out := make([]interface{}, len(rr))
	for i, r := range rr {
		out[i] = regionToJSON(r)
	}
	return out
}

func runMinimize(c J, emit func(J)) {
	id := asStr(c["id"])
	n := asInt(c["n"])
	for _, cv := range asList(c["colls"]) {
		ev := J{"ev": "minimize", "case": id, "n": n, "coll": cv,
			"minpanic": "", "min": []interface{}{}, "linpanic": "", "lin": []interface{}{}, "circpanic": "", "circ": []interface{}{}}
		func() {
			defer func() {
				if e := recover(); e != nil {
					ev["minpanic"] = fmt.Sprint(e)
				}
			}()
			ev["min"] = segsToJSON(gts.Minimize(regionFromJSON(cv)))
		}()
		func() {
			defer func() {
				if e := recover(); e != nil {
					ev["linpanic"] = fmt.Sprint(e)
				}
			}()
			ev["lin"] = regionsToJSON(gts.InvertLinear(regionFromJSON(cv), n))
		}()
		func() {
			defer func() {
				if e := recover(); e != nil {
					ev["circpanic"] = fmt.Sprint(e)
				}
			}()
			ev["circ"] = regionsToJSON(gts.InvertCircular(regionFromJSON(cv), n))
		}()
		emit(ev)
	}
}

// runLocator: one record, a batch of locator strings; logs the regions that
// gts.AsLocator(string)(record) returns (no judgement here).
func runLocator(c J, emit func(J)) {
	id := asStr(c["id"])
	rec := c["rec"].(map[string]interface{})
	for _, lv := range asList(c["locs"]) {
		lm := lv.(map[string]interface{})
		locstr := asStr(lm["locstr"])
		ev := J{"ev": "locator", "case": id, "loc": lm["loc"], "locstr": locstr, "panic": "", "err": "", "regions": []interface{}{}}
		func() {
			defer func() {
				if e := recover(); e != nil {
					ev["panic"] = fmt.Sprint(e)
				}
			}()
			seq := makeSeq(rec)
			ev["pre"] = observe(seq, false)
			locate, err := gts.AsLocator(locstr)
			if err != nil {
				ev["err"] = err.Error()
				return
			}
			ev["regions"] = regionsToJSON(locate(seq))
			// the same locator value applied again (to a fresh copy of the record): a locator is a function
			ev["regions2"] = regionsToJSON(locate(makeSeq(rec)))
		}()
		if _, ok := ev["regions2"]; !ok {
			ev["regions2"] = []interface{}{}
		}
		if _, ok := ev["pre"]; !ok {
			ev["pre"] = J{"res": []int{}, "feats": []interface{}{}}
		}
		emit(ev)
	}
}
