package main

import (
	"bytes"
	"fmt"

	"github.com/go-gts/gts"
	"github.com/go-gts/gts/seqio"
)

func writeGenBank(seq gts.Sequence) (text string, perr interface{}) {
	defer func() {
		if e := recover(); e != nil {
			text, perr = "", fmt.Sprint(e)
		}
	}()
	buf := &bytes.Buffer{}
	w := seqio.NewWriter(buf, seqio.GenBankFile)
	if _, err := w.WriteSeq(seq); err != nil {
		return "", "write error: " + err.Error()
	}
	return buf.String(), nil
}

func scanAll(text string) (seqs []gts.Sequence, errs string, perr interface{}) {
	defer func() {
		if e := recover(); e != nil {
			perr = fmt.Sprint(e)
		}
	}()
	sc := seqio.NewAutoScanner(bytes.NewReader([]byte(text)))
	for sc.Scan() {
		seqs = append(seqs, sc.Value())
	}
	if err := sc.Err(); err != nil {
		errs = err.Error()
	}
	return seqs, errs, nil
}

// gbRoundTrip: write, scan, write again; logs what was read back raw.
func gbRoundTrip(seq gts.Sequence) J {
	out := J{"wpanic": "", "rpanic": "", "rerr": "", "nread": 0, "fixed": false}
	t1, perr := writeGenBank(seq)
	if perr != nil {
		out["wpanic"] = perr
		return out
	}
	seqs, errs, perr := scanAll(t1)
	if perr != nil {
		out["rpanic"] = perr
		return out
	}
	out["rerr"] = errs
	out["nread"] = len(seqs)
	if len(seqs) == 1 {
		st, operr := observeSafe(seqs[0], false)
		if operr != nil {
			out["rpanic"] = operr
			return out
		}
		out["st"] = st
		t2, perr := writeGenBank(seqs[0])
		if perr == nil {
			out["fixed"] = t1 == t2
		}
	}
	return out
}
