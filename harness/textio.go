package main

// Driver for C16 (ORIGIN layout) and C17 (FASTA).

import (
	"bufio"
	"bytes"
	"encoding/json"
	"fmt"
	"os"
	"strconv"
	"strings"

	"github.com/go-gts/gts"
	"github.com/go-gts/gts/seqio"
)

func patternResidues(n int, alpha string) []byte {
	p := make([]byte, n)
	switch alpha {
	case "print":
		// printable, no blank (the blank is the group separator of the ORIGIN layout)
		for i := range p {
			c := byte(33 + (i*7+n)%94)
			if c == '>' {
				c = 'x'
			}
			p[i] = c
		}
	case "printsp":
		// the printable ASCII range including the blank (0x20..0x7e), for FASTA
		for i := range p {
			c := byte(32 + (i*7+n)%95)
			if c == '>' {
				c = 'x'
			}
			p[i] = c
		}
	default:
		const nt = "acgt"
		for i := range p {
			p[i] = nt[(i*3+i/7+n)%4]
		}
	}
	return p
}

// parseOriginBlock turns the text of an ORIGIN block into index/group-length records.
func parseOriginBlock(s string) (lines []interface{}, content []byte, ok bool) {
	ok = true
	if s == "" {
		return []interface{}{}, nil, true
	}
	if !strings.HasSuffix(s, "\n") {
		ok = false
	}
	for _, ln := range strings.Split(strings.TrimSuffix(s, "\n"), "\n") {
		if len(ln) < 9 {
			return lines, content, false
		}
		idx, err := strconv.Atoi(strings.TrimLeft(ln[:9], " "))
		if err != nil {
			ok = false
		}
		rest := ln[9:]
		groups := []int{}
		for len(rest) > 0 {
			if rest[0] != ' ' {
				ok = false
				break
			}
			rest = rest[1:]
			j := strings.IndexByte(rest, ' ')
			if j < 0 {
				j = len(rest)
			}
			groups = append(groups, j)
			content = append(content, rest[:j]...)
			rest = rest[j:]
		}
		lines = append(lines, J{"idx": idx, "groups": groups})
	}
	return lines, content, ok
}

func scanResidues(text string) (status string, n int, res []byte) {
	defer func() {
		if e := recover(); e != nil {
			status = "panic: " + fmt.Sprint(e)
		}
	}()
	sc := seqio.NewAutoScanner(strings.NewReader(text))
	cnt := 0
	for sc.Scan() {
		cnt++
		res = sc.Value().Bytes()
		n = gts.Len(sc.Value())
	}
	if err := sc.Err(); err != nil {
		return "error: " + err.Error(), n, res
	}
	if cnt != 1 {
		return fmt.Sprintf("records: %d", cnt), n, res
	}
	return "ok", n, res
}

func textioMain(args []string) {
	in := bufio.NewReaderSize(os.Stdin, 1<<20)
	out := bufio.NewWriterSize(os.Stdout, 1<<20)
	defer out.Flush()
	emit := func(ev J) {
		b, _ := json.Marshal(ev)
		out.Write(b)
		out.WriteByte('\n')
	}
	for {
		line, err := in.ReadBytes('\n')
		if len(line) > 1 {
			if c := decodeCase(line); c != nil {
				switch asStr(c["fam"]) {
				case "origin":
					runOrigin(c, emit)
				case "fasta":
					runFasta(c, emit)
				}
			}
		}
		if err != nil {
			break
		}
	}
}

func runOrigin(c J, emit func(J)) {
	id := asStr(c["id"])
	fullto := asInt(c["fullto"])
	for _, nv := range asList(c["ns"]) {
		n := asInt(nv)
		for _, alpha := range []string{"acgt", "print"} {
			p := patternResidues(n, alpha)
			ev := J{"ev": "origin", "case": id, "n": n, "alpha": alpha, "panic": ""}
			func() {
				defer func() {
					if e := recover(); e != nil {
						ev["panic"] = fmt.Sprint(e)
					}
				}()
				o := seqio.NewOrigin(append([]byte(nil), p...))
				s := o.String()
				ev["blocklen"] = len(s)
				lines, content, ok := parseOriginBlock(s)
				ev["full"] = n <= fullto
				if n <= fullto {
					ev["lines"] = lines
				} else {
					ev["lines"] = []interface{}{}
				}
				ev["nlines"] = len(lines)
				// the lines on both sides of every change of the index width
				probes := []interface{}{}
				for _, k := range []int{0, 1, 16, 17, 166, 167, 1666, 1667, 16666, 16667} {
					if k < len(lines) {
						probes = append(probes, J{"k": k, "line": lines[k]})
					}
				}
				ev["probes"] = probes
				if len(lines) > 0 {
					ev["lastline"] = lines[len(lines)-1]
				} else {
					ev["lastline"] = J{"idx": 0, "groups": []int{}}
				}
				ev["content"] = ok && bytes.Equal(content, p)
				ev["lennodecode"] = o.Len()
				q := o.Bytes()
				ev["byteseq"] = bytes.Equal(q, p)
				ev["lenafter"] = o.Len()
				// record level: fast path (LF) and slow path (CRLF)
				gb := seqio.GenBank{Fields: baseFields("ORI", gts.Linear), Table: gts.FeatureSlice{{Key: "source", Loc: gts.Range(0, maxInt(n, 1)), Props: gts.Props{{"organism", "x"}}}}, Origin: seqio.NewOrigin(append([]byte(nil), p...))}
				text, perr := writeGenBank(gb)
				if perr != nil {
					ev["fast"], ev["slow"], ev["scanlen"] = "write: "+fmt.Sprint(perr), "write", -1
					return
				}
				st, ln, res := scanResidues(text)
				if st == "ok" && !bytes.Equal(res, p) {
					st = "residues differ"
				}
				ev["fast"] = st
				ev["scanlen"] = ln
				st2, _, res2 := scanResidues(strings.ReplaceAll(text, "\n", "\r\n"))
				if st2 == "ok" && !bytes.Equal(res2, p) {
					st2 = "residues differ"
				}
				ev["slow"] = st2
				// the writer leaves the ORIGIN section out of a 0 bp record; the empty block (header line, no sequence
				// line) is still a block of the layout and both reader paths must take it
				if n == 0 && !strings.Contains(text, "\nORIGIN") && strings.HasSuffix(text, "//\n") {
					withOrigin := text[:len(text)-3] + "ORIGIN      \n//\n"
					if st == "ok" {
						if st3, ln3, _ := scanResidues(withOrigin); st3 != "ok" || ln3 != 0 {
							ev["fast"] = "empty ORIGIN section: " + st3
						}
					}
					if st2 == "ok" {
						if st4, ln4, _ := scanResidues(strings.ReplaceAll(withOrigin, "\n", "\r\n")); st4 != "ok" || ln4 != 0 {
							ev["slow"] = "empty ORIGIN section: " + st4
						}
					}
				}
				// the scanned record written back before anything decodes its block: the block a reader stores
				// must be the canonical one (LF and CRLF input)
				for _, crlf := range []bool{false, true} {
					in := text
					if crlf {
						in = strings.ReplaceAll(text, "\n", "\r\n")
					}
					same := false
					if seqs, errs, pp := scanAll(in); pp == nil && errs == "" && len(seqs) == 1 {
						if t2, perr := writeGenBank(seqs[0]); perr == nil {
							same = t2 == text
						}
					}
					if crlf {
						ev["rewrite_slow"] = same
					} else {
						ev["rewrite_fast"] = same
					}
				}
				// two records in one stream, all scanned before any is decoded (ORIGIN blocks decode lazily):
				// the first record must still hold its own residues afterwards
				if n <= 400 {
					p2 := patternResidues(maxInt(n-5, 0), "acgt")
					for i := range p2 {
						p2[i] = p2[i] - 32 // upper case: different from the first record
					}
					gb2 := seqio.GenBank{Fields: baseFields("OR2", gts.Linear), Table: gts.FeatureSlice{{Key: "source", Loc: gts.Range(0, maxInt(len(p2), 1)), Props: gts.Props{{"organism", "x"}}}}, Origin: seqio.NewOrigin(append([]byte(nil), p2...))}
					text2, perr2 := writeGenBank(gb2)
					if perr2 == nil {
						for _, crlf := range []bool{false, true} {
							both := text + text2
							if crlf {
								both = strings.ReplaceAll(both, "\n", "\r\n")
							}
							seqs, errs, pp := scanAll(both)
							okk := pp == nil && errs == "" && len(seqs) == 2
							if okk {
								b1 := seqs[1].Bytes()
								b0 := seqs[0].Bytes()
								okk = bytes.Equal(b0, p) && bytes.Equal(b1, p2)
							}
							if crlf {
								ev["pair_slow"] = okk
							} else {
								ev["pair_fast"] = okk
							}
						}
					}
				}
			}()
			for _, k := range []string{"pair_fast", "pair_slow", "rewrite_fast", "rewrite_slow"} {
				if _, ok := ev[k]; !ok {
					ev[k] = true
				}
			}
			if ev["panic"] != "" {
				for _, k := range []string{"blocklen", "nlines", "lennodecode", "lenafter", "scanlen"} {
					ev[k] = -1
				}
				ev["full"], ev["lines"], ev["lastline"] = false, []interface{}{}, J{"idx": 0, "groups": []int{}}
				ev["probes"] = []interface{}{}
				ev["content"], ev["byteseq"], ev["fast"], ev["slow"] = false, false, "panic", "panic"
			}
			emit(ev)
		}
	}
}

func maxInt(a, b int) int {
	if a > b {
		return a
	}
	return b
}

func fastaBodyLines(text string) [][]int {
	// per record: lengths of the body lines (text uses \n)
	var out [][]int
	var cur []int
	started := false
	for _, ln := range strings.Split(strings.TrimSuffix(text, "\n"), "\n") {
		if strings.HasPrefix(ln, ">") {
			if started {
				out = append(out, cur)
			}
			cur = []int{}
			started = true
			continue
		}
		cur = append(cur, len(ln))
	}
	if started {
		out = append(out, cur)
	}
	return out
}

func runFasta(c J, emit func(J)) {
	id := asStr(c["id"])
	descs := asList(c["descs"])
	ns := asList(c["ns"])
	// streams of 1..5 records: record i of a stream uses length ns[(k+i) % len]
	for k := range ns {
		count := 1 + k%5
		for _, crlf := range []bool{false, true} {
			written := make([]interface{}, 0, count)
			var seqs []gts.Sequence
			for i := 0; i < count; i++ {
				n := asInt(ns[(k+i*3)%len(ns)])
				desc := asStr(descs[(k+i)%len(descs)])
				p := patternResidues(n, "printsp")
				written = append(written, J{"desc": desc, "res": bytesToInts(p)})
				seqs = append(seqs, gts.New(desc, nil, p))
			}
			ev := J{"ev": "fasta", "case": id, "crlf": crlf, "written": written, "wpanic": "", "rpanic": "", "rerr": "",
				"read": []interface{}{}, "linelens": []interface{}{}}
			func() {
				defer func() {
					if e := recover(); e != nil {
						ev["wpanic"] = fmt.Sprint(e)
					}
				}()
				buf := &bytes.Buffer{}
				w := seqio.NewWriter(buf, seqio.FastaFile)
				for _, s := range seqs {
					if _, err := w.WriteSeq(s); err != nil {
						ev["wpanic"] = "write error: " + err.Error()
						return
					}
				}
				text := buf.String()
				ll := fastaBodyLines(text)
				lls := make([]interface{}, len(ll))
				for i, x := range ll {
					lls[i] = x
				}
				ev["linelens"] = lls
				if crlf {
					text = strings.ReplaceAll(text, "\n", "\r\n")
				}
				func() {
					defer func() {
						if e := recover(); e != nil {
							ev["rpanic"] = fmt.Sprint(e)
						}
					}()
					sc := seqio.NewAutoScanner(strings.NewReader(text))
					read := []interface{}{}
					for sc.Scan() {
						v := sc.Value()
						d, _ := v.Info().(string)
						read = append(read, J{"desc": d, "res": bytesToInts(v.Bytes())})
					}
					if err := sc.Err(); err != nil {
						ev["rerr"] = err.Error()
					}
					ev["read"] = read
					// the same text handed to the scanner in two reads, cut at every offset (short streams only)
					if len(text) <= 700 {
						want, _ := json.Marshal(read)
						for cut := 1; cut < len(text); cut++ {
							sc2 := seqio.NewAutoScanner(newSplitReader(text, cut))
							got := []interface{}{}
							for sc2.Scan() {
								v := sc2.Value()
								d, _ := v.Info().(string)
								got = append(got, J{"desc": d, "res": bytesToInts(v.Bytes())})
							}
							g, _ := json.Marshal(got)
							if !bytes.Equal(g, want) || (sc2.Err() == nil) != (sc.Err() == nil) {
								ev["splitdiff"] = cut
								break
							}
						}
					}
				}()
			}()
			if _, ok := ev["splitdiff"]; !ok {
				ev["splitdiff"] = -1
			}
			for len(asListAny(ev["linelens"])) < len(written) {
				ev["linelens"] = append(asListAny(ev["linelens"]), []int{-1})
			}
			emit(ev)
		}
		// GenBank record written as FASTA (whole record and a slice of it)
		n := asInt(ns[k])
		if n >= 1 {
			p := patternResidues(n, "acgt")
			gb := seqio.GenBank{Fields: baseFields("GBF", gts.Linear), Table: gts.FeatureSlice{{Key: "source", Loc: gts.Range(0, n), Props: gts.Props{{"organism", "x"}}}}, Origin: seqio.NewOrigin(append([]byte(nil), p...))}
			// a DEFINITION of 1..4 lines (the reader keeps the line breaks; FASTA wants one line)
			deflines := []string{"verif record GBF", "second line of the definition", "third line, complete genome", "fourth"}[:1+n%4]
			gb.Fields.Definition = strings.Join(deflines, "\n")
			// every other record carries REFERENCE entries (Slice treats records with and without them differently)
			if n%2 == 1 {
				gb.Fields.References = []seqio.Reference{{Number: 1, Info: fmt.Sprintf("(bases 1 to %d)", n), Authors: "A.", Title: "t", Journal: "j"},
					{Number: 2, Info: fmt.Sprintf("(bases 1 to %d)", maxInt(n/2, 1)), Authors: "B.", Title: "u", Journal: "k"}}
			}
			// whole record, an inner slice, empty slices, the full-length slice, one-residue slices
			for _, w := range [][]int{nil, {n / 3, n - n/4}, {n / 3, n / 3}, {0, 0}, {n, n}, {0, n}, {n - 1, n}, {0, 1}} {
				var seq gts.Sequence = gb
				want := p
				region := []int{}
				if w != nil {
					if w[0] > w[1] {
						continue
					}
					want = p[w[0]:w[1]]
					region = []int{w[0], w[1]}
				}
				ev := J{"ev": "gbfasta", "case": id, "version": gb.Fields.Version, "definition": strings.Join(deflines, " "), "deflines": len(deflines),
					"region": region, "gbres": bytesToInts(want), "panic": "", "desc": "", "res": []int{}}
				func() {
					defer func() {
						if e := recover(); e != nil {
							ev["panic"] = fmt.Sprint(e)
						}
					}()
					if w != nil {
						seq = gts.Slice(gb, w[0], w[1])
					}
					buf := &bytes.Buffer{}
					w := seqio.NewWriter(buf, seqio.FastaFile)
					if _, err := w.WriteSeq(seq); err != nil {
						ev["panic"] = "write error: " + err.Error()
						return
					}
					sc := seqio.NewAutoScanner(bytes.NewReader(buf.Bytes()))
					if sc.Scan() {
						v := sc.Value()
						d, _ := v.Info().(string)
						ev["desc"] = d
						ev["res"] = bytesToInts(v.Bytes())
					} else {
						ev["panic"] = "fasta of genbank not readable"
					}
				}()
				emit(ev)
			}
		}
	}
}

func asListAny(v interface{}) []interface{} {
	l, _ := v.([]interface{})
	return l
}
