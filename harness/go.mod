module verifharness

go 1.15

require github.com/go-gts/gts v0.0.0

replace github.com/go-gts/gts => /repo
