module verifharness

go 1.15

require (
	github.com/go-gts/gts v0.0.0
	github.com/go-pars/pars v1.1.6
)

replace github.com/go-gts/gts => /repo
