package main

// Driver for the extra suite X-cachedir (spec/CacheDir.tla): the cache
// directory under `gts cache list / purge / path` and cached runs.

import (
	"crypto/sha1"
	"encoding/hex"
	"fmt"
	"io/ioutil"
	"math"
	"os"
	"os/exec"
	"path/filepath"
	"sort"
	"strings"
)

// the invocations behind the abstract keys 1..3
var cacheDirKeys = map[int]struct {
	cmd   string
	args  []string
	input string
}{
	1: {"reverse", nil, "part"},
	2: {"complement", nil, "phix"},
	3: {"rotate", []string{"^+10"}, "part"},
	4: {"reverse", nil, "phix"},
}

// what humanize.IBytes prints (the format `gts cache list` uses for sizes)
func iBytes(s uint64) string {
	sizes := []string{"B", "KiB", "MiB", "GiB", "TiB", "PiB", "EiB"}
	if s < 10 {
		return fmt.Sprintf("%d B", s)
	}
	e := math.Floor(math.Log(float64(s)) / math.Log(1024))
	suffix := sizes[int(e)]
	val := math.Floor(float64(s)/math.Pow(1024, e)*10+0.5) / 10
	f := "%.0f %s"
	if val < 10 {
		f = "%.1f %s"
	}
	return fmt.Sprintf(f, val, suffix)
}

func (e *cliEnv) runCacheCmd(caseDir string, sub string) (int, string) {
	c := exec.Command(e.gts, "cache", sub)
	c.Env = []string{"XDG_CACHE_HOME=" + filepath.Join(caseDir, "cache"), "HOME=" + caseDir, "PATH=/usr/bin:/bin", "TMPDIR=" + caseDir}
	out, err := c.Output()
	status := 0
	if err != nil {
		status = -1
		if ee, ok := err.(*exec.ExitError); ok {
			status = ee.ExitCode()
		}
	}
	return status, string(out)
}

func runCacheDir(env *cliEnv, c J, emit func(J)) {
	id := asStr(c["id"])
	dir, err := ioutil.TempDir("", "verif-cdir-")
	if err != nil {
		panic(err)
	}
	defer os.RemoveAll(dir)
	cdir := filepath.Join(dir, "cache", "gts-cache")
	emit(J{"ev": "case", "case": id})
	for i, ov := range asList(c["ops"]) {
		o := ov.(map[string]interface{})
		op, k := asStr(o["op"]), asInt(o["k"])
		ev := J{"ev": "cdop", "case": id, "o": J{"op": op, "k": k}, "status": 0, "out": "", "listed": []string{}, "total": "", "wanttotal": "",
			"sizesok": true, "pathok": true}
		switch op {
		case "run", "runfile":
			inv := cacheDirKeys[k]
			sink := "stdout"
			if op == "runfile" {
				sink = "file"
			}
			res := env.run(dir, inv.cmd, inv.args, inv.input, sink, false, i)
			sum := sha1.Sum(res.out)
			ev["status"] = res.status
			ev["out"] = hex.EncodeToString(sum[:])
		case "purge":
			st, out := env.runCacheCmd(dir, "purge")
			ev["status"], ev["out"] = st, out
		case "path":
			st, out := env.runCacheCmd(dir, "path")
			ev["status"], ev["out"] = st, out
			ev["pathok"] = out == cdir+"\n"
		case "list":
			// sizes on disk before listing
			sizes := map[string]uint64{}
			total := uint64(0)
			if fs, err := ioutil.ReadDir(cdir); err == nil {
				for _, f := range fs {
					sizes[f.Name()] = uint64(f.Size())
					total += uint64(f.Size())
				}
			}
			st, out := env.runCacheCmd(dir, "list")
			ev["status"], ev["out"] = st, ""
			listed := []string{}
			ok := true
			lines := strings.Split(strings.TrimSuffix(out, "\n"), "\n")
			for j, ln := range lines {
				parts := strings.Split(ln, "\t")
				if len(parts) != 2 {
					ok = false
					continue
				}
				if j == len(lines)-1 {
					if parts[0] != "Total" {
						ok = false
					}
					ev["total"] = parts[1]
					continue
				}
				listed = append(listed, parts[0])
				if sz, has := sizes[parts[0]]; !has || iBytes(sz) != parts[1] {
					ok = false
				}
			}
			ev["listed"], ev["sizesok"], ev["wanttotal"] = listed, ok, iBytes(total)
		}
		files := []string{}
		if fs, err := ioutil.ReadDir(cdir); err == nil {
			for _, f := range fs {
				files = append(files, f.Name())
			}
		}
		sort.Strings(files)
		ev["files"] = files
		emit(ev)
	}
}
