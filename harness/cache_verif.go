//go:build verif
// +build verif

package main

// Driver for C13: replays TLC-generated fault histories on the real
// cmd/cache code.  The hook (build tag verif) copies the on-disk file at
// every step of the write protocol, so crash images are the real
// intermediate files in the real order.

import (
	"bufio"
	"bytes"
	"crypto/sha1"
	"encoding/hex"
	"encoding/json"
	"fmt"
	"io/ioutil"
	"math/rand"
	"os"
	"path/filepath"

	"github.com/go-gts/gts/cmd/cache"
)

type stepImage struct {
	step string
	data []byte
}

func blockBytes(j int, rng *rand.Rand) []byte {
	switch j {
	case 1:
		return []byte{byte('A' + rng.Intn(26))}
	case 2:
		p := make([]byte, 100)
		for i := range p {
			p[i] = byte("acgt"[rng.Intn(4)])
		}
		return p
	default:
		p := make([]byte, 70000)
		rng.Read(p) // incompressible: the compressor emits several blocks
		return p
	}
}

// alignStream adjusts the last block until the stored stream (file size minus the 60-byte header) is a
// multiple of 4096; it measures with the real writer in a scratch directory.
func alignStream(blocks [][]byte, rng *rand.Rand, rsum, dsum []byte, text bool) bool {
	dir, err := ioutil.TempDir("", "verif-cache-align-")
	if err != nil {
		return false
	}
	defer os.RemoveAll(dir)
	hook := cache.VerifStep
	cache.VerifStep = nil
	defer func() { cache.VerifStep = hook }()
	measure := func() int {
		f, err := cache.Create(dir, sha1.New(), rsum, dsum)
		if err != nil {
			return -1
		}
		for _, b := range blocks {
			f.Write(b)
		}
		name := f.Name()
		if f.Close() != nil {
			return -1
		}
		st, err := os.Stat(name)
		if err != nil {
			return -1
		}
		os.Remove(name)
		return int(st.Size()) - 60
	}
	last := len(blocks) - 1
	if text {
		letters := func(n int) []byte {
			p := make([]byte, n)
			for i := range p {
				p[i] = "acgt"[rng.Intn(4)]
			}
			return p
		}
		blocks[last] = letters(24000)
		for try := 0; try < 4000; try++ {
			n := measure()
			if n < 0 {
				return false
			}
			if n%4096 == 0 {
				return true
			}
			d := 4096 - n%4096
			if d > 40 {
				blocks[last] = append(blocks[last], letters(d*3)...)
			} else {
				blocks[last] = append(blocks[last], letters(1)...)
			}
		}
		return false
	}
	for try := 0; try < 12; try++ {
		n := measure()
		if n < 0 {
			return false
		}
		if n%4096 == 0 {
			return true
		}
		d := 4096 - n%4096
		if d > 2048 && len(blocks[last]) > 4096 {
			blocks[last] = blocks[last][:len(blocks[last])-(n%4096)]
		} else {
			extra := make([]byte, d)
			rng.Read(extra)
			blocks[last] = append(blocks[last], extra...)
		}
	}
	return false
}

func leafName(rsum, dsum []byte) string {
	h := sha1.New()
	h.Write(append(append([]byte(nil), rsum...), dsum...))
	return hex.EncodeToString(h.Sum(nil))
}

func tryOpen(dir string, rsum, dsum []byte, want []byte) (ok bool, equal bool, perr string) {
	defer func() {
		if e := recover(); e != nil {
			ok, equal, perr = false, false, fmt.Sprint(e)
		}
	}()
	f, err := cache.Open(dir, sha1.New(), rsum, dsum)
	if err != nil {
		return false, false, ""
	}
	got, rerr := ioutil.ReadAll(f)
	f.Close()
	if rerr != nil {
		return true, false, ""
	}
	return true, bytes.Equal(got, want), ""
}

func cacheMain(args []string) {
	full := len(args) > 0 && args[0] == "-full"
	in := bufio.NewReaderSize(os.Stdin, 1<<20)
	out := bufio.NewWriterSize(os.Stdout, 1<<20)
	defer out.Flush()
	emit := func(ev J) {
		b, _ := json.Marshal(ev)
		out.Write(b)
		out.WriteByte('\n')
	}
	caseNo := 0
	for {
		line, err := in.ReadBytes('\n')
		if len(line) > 1 {
			if c := decodeCase(line); c != nil {
				caseNo++
				runCacheCase(c, caseNo, full, emit)
			}
		}
		if err != nil {
			break
		}
	}
}

func runCacheCase(c J, caseNo int, full bool, emit func(J)) {
	hist := asList(c["hist"])
	id := asStr(c["id"])
	rng := rand.New(rand.NewSource(int64(caseNo)))
	dir, err := ioutil.TempDir("", "verif-cache-")
	if err != nil {
		fmt.Fprintln(os.Stderr, err)
		os.Exit(2)
	}
	defer os.RemoveAll(dir)
	rsum := sha1.Sum([]byte(fmt.Sprintf("root-%d", caseNo)))
	dsum := sha1.Sum([]byte(fmt.Sprintf("data-%d", caseNo)))
	name := filepath.Join(dir, leafName(rsum[:], dsum[:]))

	emit(J{"ev": "case", "case": id})

	// ---- run the writer part of the history on the real code
	var images []stepImage
	cache.VerifStep = func(f *os.File, step string) {
		data, _ := ioutil.ReadFile(f.Name())
		images = append(images, stepImage{step, data})
		zero := len(data) >= 60 && bytes.Equal(data[:60], make([]byte, 60))
		emit(J{"ev": "step", "case": id, "step": step, "size": len(data), "hdrzero": zero})
	}
	defer func() { cache.VerifStep = nil }()

	// the blocks the client will write; for every other multi-block body the last block is trimmed so
	// that the stored stream is an exact multiple of 4096 bytes (reads that stop at a buffer boundary)
	nw := 0
	for _, av := range hist {
		if asStr(av.(map[string]interface{})["a"]) == "write" {
			nw++
		}
	}
	blocks := make([][]byte, nw)
	for j := range blocks {
		blocks[j] = blockBytes(j+1, rng)
	}
	aligned := false
	extended := false
	for _, av := range hist {
		if asStr(av.(map[string]interface{})["a"]) == "extend" {
			extended = true
		}
	}
	if nw >= 3 && extended {
		// compressible text: every read of the inflater goes through its 4096-byte buffer, so a stream of
		// k*4096 bytes ends exactly where a buffer fill ends
		aligned = alignStream(blocks, rng, rsum[:], dsum[:], true)
	} else if nw >= 3 && caseNo%2 == 0 {
		aligned = alignStream(blocks, rng, rsum[:], dsum[:], false)
	}
	emit(J{"ev": "note", "case": id, "aligned": aligned, "blocks": nw})

	var f *cache.File
	var want []byte
	nwrites := 0
	closed := false
	lastWriter := -1
	for i, av := range hist {
		a := av.(map[string]interface{})
		switch asStr(a["a"]) {
		case "create":
			var cerr error
			f, cerr = cache.Create(dir, sha1.New(), rsum[:], dsum[:])
			if cerr != nil {
				emit(J{"ev": "error", "case": id, "what": "create: " + cerr.Error()})
				return
			}
			lastWriter = i
		case "write":
			nwrites++
			blk := blocks[nwrites-1]
			want = append(want, blk...)
			if _, werr := f.Write(blk); werr != nil {
				emit(J{"ev": "error", "case": id, "what": "write: " + werr.Error()})
				return
			}
			lastWriter = i
		case "closebody", "hash", "header":
			if !closed {
				// Close performs closebody, hash and header in one call; the
				// hook has recorded the image after each of them
				if cerr := f.Close(); cerr != nil {
					emit(J{"ev": "error", "case": id, "what": "close: " + cerr.Error()})
					return
				}
				closed = true
			}
			lastWriter = i
		}
	}
	// image after writer action index i (by counting hook steps)
	imageAfter := func(i int) []byte {
		k := -1 // index into images
		w := 0
		for j := 0; j <= i; j++ {
			a := hist[j].(map[string]interface{})
			switch asStr(a["a"]) {
			case "create":
				k = find(images, "placeholder-written", 1)
			case "write":
				w++
				k = find(images, "block-written", w)
			case "closebody":
				k = find(images, "body-closed", 1)
			case "hash":
				k = find(images, "body-hashed", 1)
			case "header":
				k = find(images, "header-written", 1)
			}
		}
		if k < 0 {
			return nil
		}
		return images[k].data
	}
	base := imageAfter(lastWriter)
	if base == nil {
		emit(J{"ev": "error", "case": id, "what": "no image for the writer prefix (hook missing?)"})
		return
	}
	last := hist[len(hist)-1].(map[string]interface{})
	attempt := func(variant string, data []byte, r, d []byte, fname string) {
		os.Remove(name)
		if fname != name {
			os.Remove(fname)
		}
		if data != nil {
			ioutil.WriteFile(fname, data, 0644)
		}
		ok, eq, perr := tryOpen(dir, r, d, want)
		emit(J{"ev": "open", "case": id, "hist": c["hist"], "variant": variant, "ok": ok, "equal": eq, "panic": perr})
		os.Remove(fname)
	}
	masks := []byte{0x01, 0x20, 0x80, 0xFF}
	offsets := func(lo, hi int) []int {
		var xs []int
		n := hi - lo
		step := 1
		if !full && n > 600 {
			step = n / 300
		}
		for x := lo; x < hi; x += step {
			xs = append(xs, x)
		}
		if hi-1 >= lo {
			xs = append(xs, hi-1)
		}
		return xs
	}
	nblocks := 0
	if cr, ok := hist[0].(map[string]interface{}); ok {
		nblocks = asInt(cr["n"])
	}
	region := func(b int) (int, int) { // b = 1..nblocks, 0 = trailer (last region)
		body := len(base) - 60
		parts := nblocks + 1
		idx := b - 1
		if b == 0 {
			idx = nblocks
		}
		lo := 60 + body*idx/parts
		hi := 60 + body*(idx+1)/parts
		return lo, hi
	}
	// a fault that strikes a finished entry strikes an entry that has been in use: the intact file is opened
	// (successfully) under the same name, in the same process, before every faulty image is
	switch asStr(last["a"]) {
	case "corrupt-slot", "corrupt-block", "truncate-header", "truncate-body", "extend":
		inner := attempt
		attempt = func(variant string, data []byte, r, d []byte, fname string) {
			ioutil.WriteFile(name, base, 0644)
			ok, eq, perr := tryOpen(dir, rsum[:], dsum[:], want)
			emit(J{"ev": "open", "case": id, "hist": hist[:len(hist)-1], "variant": "intact-before-" + variant, "ok": ok, "equal": eq, "panic": perr})
			inner(variant, data, r, d, fname)
		}
	}
	switch asStr(last["a"]) {
	case "crash", "create", "write", "closebody", "hash":
		attempt("image", base, rsum[:], dsum[:], name)
	case "header":
		attempt("final", base, rsum[:], dsum[:], name)
	case "tear":
		final := imageAfterFinal(images)
		n := asInt(last["n"])
		k, part := n/2, n%2 == 1
		if final == nil {
			// run Close on a copy of the protocol to obtain the header bytes
			if cerr := f.Close(); cerr == nil {
				final = imageAfterFinal(images)
			}
		}
		if final == nil {
			emit(J{"ev": "error", "case": id, "what": "no final image for tear"})
			return
		}
		if !part {
			data := append(append([]byte(nil), final[:20*k]...), base[20*k:]...)
			attempt(fmt.Sprintf("tear@%d", 20*k), data, rsum[:], dsum[:], name)
		} else {
			for extra := 1; extra < 20; extra++ {
				cut := 20*k + extra
				data := append(append([]byte(nil), final[:cut]...), base[cut:]...)
				attempt(fmt.Sprintf("tear@%d", cut), data, rsum[:], dsum[:], name)
			}
		}
	case "corrupt-slot":
		s := asInt(last["n"])
		for off := 20 * (s - 1); off < 20*s; off++ {
			// header slots: every single-bit mask and the full byte
			for _, m := range []byte{0x01, 0x02, 0x04, 0x08, 0x10, 0x20, 0x40, 0x80, 0xFF} {
				data := append([]byte(nil), base...)
				data[off] ^= m
				attempt(fmt.Sprintf("flip@%d^%02x", off, m), data, rsum[:], dsum[:], name)
			}
		}
	case "corrupt-block":
		lo, hi := region(asInt(last["n"]))
		for _, off := range offsets(lo, hi) {
			for _, m := range masks {
				data := append([]byte(nil), base...)
				data[off] ^= m
				attempt(fmt.Sprintf("flip@%d^%02x", off, m), data, rsum[:], dsum[:], name)
			}
		}
	case "truncate-header":
		for n := 0; n < 60; n++ {
			attempt(fmt.Sprintf("trunc@%d", n), base[:n], rsum[:], dsum[:], name)
		}
	case "truncate-body":
		// the file keeps k blocks: it is cut somewhere inside block k+1 (trailer = nblocks+1)
		k := asInt(last["n"])
		b := k + 1
		if b > nblocks {
			b = 0
		}
		lo, hi := region(b)
		for _, n := range offsets(lo, hi) {
			attempt(fmt.Sprintf("trunc@%d", n), base[:n], rsum[:], dsum[:], name)
		}
	case "extend":
		for _, tail := range [][]byte{{0}, {0xFF}, bytes.Repeat([]byte{'x'}, 100)} {
			attempt(fmt.Sprintf("extend+%d", len(tail)), append(append([]byte(nil), base...), tail...), rsum[:], dsum[:], name)
		}
	case "otherkey":
		s := asInt(last["n"])
		r2, d2 := rsum, dsum
		if s == 1 {
			r2 = sha1.Sum([]byte(fmt.Sprintf("other-root-%d", caseNo)))
		} else {
			d2 = sha1.Sum([]byte(fmt.Sprintf("other-data-%d", caseNo)))
		}
		// the finished file stored under the other key's name
		attempt("stored-under-other-key", base, r2[:], d2[:], filepath.Join(dir, leafName(r2[:], d2[:])))
		// the other key asked for while only this entry exists
		ioutil.WriteFile(name, base, 0644)
		ok, eq, perr := tryOpen(dir, r2[:], d2[:], want)
		emit(J{"ev": "open", "case": id, "hist": c["hist"], "variant": "lookup-other-key", "ok": ok, "equal": eq, "panic": perr})
		os.Remove(name)
	}
}

func find(images []stepImage, step string, nth int) int {
	n := 0
	for i, im := range images {
		if im.step == step {
			n++
			if n == nth {
				return i
			}
		}
	}
	return -1
}

func imageAfterFinal(images []stepImage) []byte {
	if k := find(images, "header-written", 1); k >= 0 {
		return images[k].data
	}
	return nil
}
