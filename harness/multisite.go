package main

// C15: run one multi-site command of the gts binary on a generated record
// and log the parsed input and the parsed output records.

import (
	"io/ioutil"
	"os"
	"path/filepath"
)

func runMultiSite(env *cliEnv, c J, emit func(J)) {
	id := asStr(c["id"])
	dir, err := ioutil.TempDir("", "verif-ms-")
	if err != nil {
		panic(err)
	}
	defer os.RemoveAll(dir)
	rec := c["rec"].(map[string]interface{})
	seq := makeSeq(rec)
	text, perr := writeGenBank(seq)
	ev := J{"ev": "cli", "case": id, "cmd": c["cmd"], "opts": c["opts"], "loc": c["loc"], "locstr": c["locstr"],
		"guest": c["guest"], "status": -1, "stderr": "", "parseerr": "", "pre": emptyState(), "outs": []interface{}{}}
	if perr != nil {
		ev["parseerr"] = "cannot write the input record"
		emit(ev)
		return
	}
	// the record as the command will see it
	pre, errs, pp := scanAll(text)
	if pp != nil || errs != "" || len(pre) != 1 {
		ev["parseerr"] = "generated input not readable: " + errs
		emit(ev)
		return
	}
	if st, operr := observeSafe(pre[0], false); operr == nil {
		ev["pre"] = st
	} else {
		ev["parseerr"] = "cannot observe the input record"
		emit(ev)
		return
	}
	inName := "in-" + id
	ioutil.WriteFile(filepath.Join(env.inputs, inName), []byte(text), 0644)
	defer os.Remove(filepath.Join(env.inputs, inName))
	args := append([]string{}, strList(c["opts"])...)
	args = append(args, asStr(c["locstr"]))
	if asStr(c["cmd"]) == "insert" {
		args = append(args, "@"+string(intsToBytes(c["guest"])))
	}
	stdin := inName
	if asStr(c["cmd"]) == "infix" {
		// gts infix <locator> <host file>  <  guest
		guestName := "guest-" + id
		ioutil.WriteFile(filepath.Join(env.inputs, guestName), []byte(">guest\n"+string(intsToBytes(c["guest"]))+"\n"), 0644)
		defer os.Remove(filepath.Join(env.inputs, guestName))
		args = append(args, "{file:"+inName+"}")
		stdin = guestName
	}
	res := env.run(dir, asStr(c["cmd"]), args, stdin, "stdout", true, 0)
	ev["status"] = res.status
	se := res.stderr
	if len(se) > 160 {
		se = se[:160]
	}
	ev["stderr"] = se
	if res.status == 0 {
		outs, oerrs, op := scanAll(string(res.out))
		if op != nil {
			ev["parseerr"] = "panic while reading the output"
		} else if oerrs != "" {
			ev["parseerr"] = oerrs
		}
		list := make([]interface{}, 0, len(outs))
		for _, o := range outs {
			st, operr := observeSafe(o, false)
			if operr != nil {
				ev["parseerr"] = "cannot observe output"
				break
			}
			list = append(list, st)
		}
		ev["outs"] = list
	}
	// the same record twice in one stream: every record must be treated like the first one
	ev["status2"] = -1
	ev["outs2"] = []interface{}{}
	if res.status == 0 && asStr(c["cmd"]) != "infix" {
		in2 := "in2-" + id
		ioutil.WriteFile(filepath.Join(env.inputs, in2), []byte(text+text), 0644)
		defer os.Remove(filepath.Join(env.inputs, in2))
		res2 := env.run(dir, asStr(c["cmd"]), args, in2, "stdout", true, 1)
		ev["status2"] = res2.status
		if res2.status == 0 {
			outs2, oerrs2, op2 := scanAll(string(res2.out))
			list2 := make([]interface{}, 0, len(outs2))
			if op2 == nil && oerrs2 == "" {
				for _, o := range outs2 {
					st, operr := observeSafe(o, false)
					if operr != nil {
						break
					}
					list2 = append(list2, st)
				}
			}
			ev["outs2"] = list2
		}
	}
	emit(ev)
}
