package main

func runMultiSite(env *cliEnv, c J, emit func(J)) {}
