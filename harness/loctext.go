package main

// Driver for C06: location text round trip and join reduction.

import (
	"bufio"
	"encoding/json"
	"fmt"
	"os"

	"github.com/go-gts/gts"
	"github.com/go-pars/pars"
)

func safeString(loc gts.Location) (s string, perr string) {
	defer func() {
		if e := recover(); e != nil {
			s, perr = "", fmt.Sprint(e)
		}
	}()
	if loc == nil {
		return "<nil>", ""
	}
	return loc.String(), ""
}

func safeParse(s string) (loc gts.Location, errs string, perr string) {
	defer func() {
		if e := recover(); e != nil {
			loc, errs, perr = nil, "", fmt.Sprint(e)
		}
	}()
	l, err := gts.AsLocation(s)
	if err != nil {
		return nil, err.Error(), ""
	}
	return l, "", ""
}

// splitOutcomes parses s through a reader that delivers it in two reads, cut at every offset, and
// returns the distinct outcomes: the printed result, "!" for an error, "PANIC".
func splitOutcomes(s string) []interface{} {
	seen := map[string]bool{}
	out := []interface{}{}
	for k := 1; k < len(s); k++ {
		o := func() (o string) {
			defer func() {
				if e := recover(); e != nil {
					o = "PANIC"
				}
			}()
			res, err := gts.ParseLocation.Parse(pars.NewState(newSplitReader(s, k)))
			if err != nil {
				return "!"
			}
			return res.Value.(gts.Location).String()
		}()
		if !seen[o] {
			seen[o] = true
			out = append(out, o)
		}
	}
	return out
}

func safeBuilt(t interface{}) (loc gts.Location, perr string) {
	defer func() {
		if e := recover(); e != nil {
			loc, perr = nil, fmt.Sprint(e)
		}
	}()
	return builtFromJSON(t), ""
}

func locTextMain(args []string) {
	in := bufio.NewReaderSize(os.Stdin, 1<<20)
	out := bufio.NewWriterSize(os.Stdout, 1<<20)
	defer out.Flush()
	emit := func(ev J) {
		b, _ := json.Marshal(ev)
		out.Write(b)
		out.WriteByte('\n')
	}
	for {
		line, err := in.ReadBytes('\n')
		if len(line) > 1 {
			c := decodeCase(line)
			if c != nil {
				id := asStr(c["id"])
				for _, t := range asList(c["terms"]) {
					ev := J{"ev": "term", "case": id, "raw": t, "panic": "", "ok": false, "splits": []interface{}{},
						"built": J{"k": "nil"}, "s": "", "v2": J{"k": "nil"}, "s2": "", "rebuilt": J{"k": "nil"}}
					v, perr := safeBuilt(t)
					if perr != "" {
						ev["panic"] = "build: " + perr
						emit(ev)
						continue
					}
					ev["built"] = locToJSON(v)
					s, perr := safeString(v)
					if perr != "" {
						ev["panic"] = "string: " + perr
						emit(ev)
						continue
					}
					ev["s"] = s
					ev["splits"] = splitOutcomes(s)
					v2, errs, perr := safeParse(s)
					if perr != "" {
						ev["panic"] = "parse: " + perr
						emit(ev)
						continue
					}
					if errs == "" {
						ev["ok"] = true
						ev["v2"] = locToJSON(v2)
						s2, _ := safeString(v2)
						ev["s2"] = s2
					}
					rb, perr := safeBuilt(locToJSON(v))
					if perr == "" {
						ev["rebuilt"] = locToJSON(rb)
					}
					emit(ev)
				}
				for _, x := range asList(c["strings"]) {
					s := asStr(x)
					ev := J{"ev": "str", "case": id, "in": s, "panic": "", "ok": false, "v": J{"k": "nil"}, "splits": splitOutcomes(s),
						"s1": "", "ok1": false, "v1": J{"k": "nil"}, "s2": ""}
					v, errs, perr := safeParse(s)
					if perr != "" {
						ev["panic"] = "parse: " + perr
						emit(ev)
						continue
					}
					if errs != "" {
						emit(ev)
						continue
					}
					ev["ok"] = true
					ev["v"] = locToJSON(v)
					s1, perr := safeString(v)
					if perr != "" {
						ev["panic"] = "string: " + perr
						emit(ev)
						continue
					}
					ev["s1"] = s1
					v1, errs, perr := safeParse(s1)
					if perr != "" {
						ev["panic"] = "parse1: " + perr
						emit(ev)
						continue
					}
					if errs == "" {
						ev["ok1"] = true
						ev["v1"] = locToJSON(v1)
						s2, _ := safeString(v1)
						ev["s2"] = s2
					}
					emit(ev)
				}
			}
		}
		if err != nil {
			break
		}
	}
}
